// Identity driver for C17 (index maps).  Compiled to LLVM IR with -DNDEBUG (never linked, never run);
// rkstatic/irnorm.py reads the IR of each K_* function.  Parameter names are part of the contract with
// rules/C17.py (they become the input symbols: dims[0], dims[8], i, ...).
#include "rkcommon/array3D/Array3D.h"
#include "rkcommon/utility/multidim_index_sequence.h"

using namespace rkcommon;
using namespace rkcommon::math;
using namespace rkcommon::array3D;

// emit the vtables and the out-of-line copies of the virtual members: with summary(pointers={'a[0]': (vtable, 16)}) the
// virtual calls that ActualArray3D makes on *this resolve to them (dynamic type = ActualArray3D<T>)
template struct rkcommon::array3D::ActualArray3D<float>;
template struct rkcommon::array3D::ActualArray3D<double>;

typedef multidim_index_iterator<2> it2;
typedef multidim_index_iterator<3> it3;

extern "C" {
// multidim_index_sequence ---------------------------------------------------------------------
size_t K_flatten2(const vec2ul *dims, const vec2ul *c) { index_sequence_2D s(*dims); return s.flatten(*c); }
size_t K_flatten3(const vec3ul *dims, const vec3ul *c) { index_sequence_3D s(*dims); return s.flatten(*c); }
void K_reshape2(const vec2ul *dims, size_t i, vec2ul *out) { index_sequence_2D s(*dims); *out = s.reshape(i); }
void K_reshape3(const vec3ul *dims, size_t i, vec3ul *out) { index_sequence_3D s(*dims); *out = s.reshape(i); }
size_t K_fr2(const vec2ul *dims, size_t i) { index_sequence_2D s(*dims); return s.flatten(s.reshape(i)); }
size_t K_fr3(const vec3ul *dims, size_t i) { index_sequence_3D s(*dims); return s.flatten(s.reshape(i)); }
size_t K_total2(const vec2ul *dims) { index_sequence_2D s(*dims); return s.total_indices(); }
size_t K_total3(const vec3ul *dims) { index_sequence_3D s(*dims); return s.total_indices(); }
void K_dims3(const vec3ul *dims, vec3ul *out) { index_sequence_3D s(*dims); *out = s.dimensions(); }

// iterators ------------------------------------------------------------------------------------
void K_begin2(const vec2ul *dims, it2 *out) { index_sequence_2D s(*dims); new (out) it2(s.begin()); }
void K_end2(const vec2ul *dims, it2 *out) { index_sequence_2D s(*dims); new (out) it2(s.end()); }
void K_begin3(const vec3ul *dims, it3 *out) { index_sequence_3D s(*dims); new (out) it3(s.begin()); }
void K_end3(const vec3ul *dims, it3 *out) { index_sequence_3D s(*dims); new (out) it3(s.end()); }
void K_deref2(const it2 *it, vec2ul *out) { *out = **it; }
void K_deref3(const it3 *it, vec3ul *out) { *out = **it; }
void K_preinc3(it3 *it, it3 *out) { new (out) it3(++*it); }
void K_postinc3(it3 *it) { (*it)++; }
void K_preinc2(it2 *it, it2 *out) { new (out) it2(++*it); }
void K_postinc2(it2 *it) { (*it)++; }
int K_eq3(const it3 *it, const it3 *other) { return *it == *other; }
int K_ne3(const it3 *it, const it3 *other) { return *it != *other; }
size_t K_current3(const it3 *it) { return it->current(); }
size_t K_current2(const it2 *it) { return it->current(); }

// array3D/for_each.h ---------------------------------------------------------------------------
size_t K_longProduct(const vec3i *dims) { return longProduct(*dims); }
size_t K_longIndex(const vec3i *idx, const vec3i *dims) { return longIndex(*idx, *dims); }
void K_coordsOf(size_t i, const vec3i *dims, vec3i *out) { *out = coordsOf(i, *dims); }
size_t K_li_co(const vec3i *dims, size_t i) { return longIndex(coordsOf(i, *dims), *dims); }
size_t K_vec3i_long_product(const vec3i *dims) { return dims->long_product(); }

// Array3D.h ------------------------------------------------------------------------------------
size_t K_indexOf(const ActualArray3D<float> *a, const vec3i *idx) { return a->indexOf(*idx); }
size_t K_numElements(const ActualArray3D<float> *a) { return a->ActualArray3D<float>::numElements(); }
float K_get(const ActualArray3D<float> *a, const vec3i *idx) { return a->ActualArray3D<float>::get(*idx); }
double K_get_d(const ActualArray3D<double> *a, const vec3i *idx) { return a->ActualArray3D<double>::get(*idx); }
size_t K_sub_numElements(const SubBoxArray3D<float> *a) { return a->SubBoxArray3D<float>::numElements(); }
size_t K_rep_numElements(const Array3DRepeater<float> *a) { return a->Array3DRepeater<float>::numElements(); }
void K_sub_size(const SubBoxArray3D<float> *a, vec3i *out) { *out = a->SubBoxArray3D<float>::size(); }
void K_actual_size(const ActualArray3D<float> *a, vec3i *out) { *out = a->ActualArray3D<float>::size(); }
void K_actual_size_d(const ActualArray3D<double> *a, vec3i *out) { *out = a->ActualArray3D<double>::size(); }
}
