// Identity drivers for C06 (linear / affine / quaternion algebra).
// Compiled to LLVM IR (never linked, never run). Every identity NAME is a pair of functions
//     extern "C" void NAME__lhs(const S *in, S *out);   // through rkcommon's public API
//     extern "C" void NAME__rhs(const S *in, S *out);   // from the definition, or an independent rkcommon route
// that must write equal values to out[0..n) for all inputs (as exact real-arithmetic terms); a single function
// NAME__zero must write 0 to every out slot on every path.
// `in` is a flat array of independent scalars. S = RKV_SCALAR = float (built with -DRKCOMMON_NO_SIMD so that rcp/rsqrt are
// plain divisions) or double.
#include "rkcommon/math/AffineSpace.h"
#include "rkcommon/math/LinearSpace.h"
#include "rkcommon/math/Quaternion.h"

using namespace rkcommon::math;

#ifndef RKV_SCALAR
#define RKV_SCALAR float
#endif
typedef RKV_SCALAR S;

typedef vec_t<S, 2> V2;
#ifdef RKV_PADDED
typedef vec_t<S, 3, true> V3;   // padded 3-vector (vec3fa): 4 lanes, the 4th is not a component
#else
typedef vec_t<S, 3> V3;
#endif
typedef LinearSpace2<V2> L2;
typedef LinearSpace3<V3> L3;
typedef AffineSpaceT<L3> A3;
typedef AffineSpaceT<L2> A2;
typedef QuaternionT<S> Q;

#define ID(name) extern "C" __attribute__((noinline)) void name

static inline L2 mk2(const S *in) { return L2(V2(in[0], in[1]), V2(in[2], in[3])); }  // columns
static inline L3 mk3(const S *in) { return L3(V3(in[0], in[1], in[2]), V3(in[3], in[4], in[5]), V3(in[6], in[7], in[8])); }
static inline A3 mka(const S *in) { return A3(mk3(in), V3(in[9], in[10], in[11])); }
static inline Q mkq(const S *in) { return Q(in[0], in[1], in[2], in[3]); }  // r,i,j,k
static inline void put(S *o, const V2 &v) { o[0] = v.x; o[1] = v.y; }
static inline void put(S *o, const V3 &v) { o[0] = v.x; o[1] = v.y; o[2] = v.z; }
static inline void put(S *o, const L2 &m) { put(o, m.vx); put(o + 2, m.vy); }
static inline void put(S *o, const L3 &m) { put(o, m.vx); put(o + 3, m.vy); put(o + 6, m.vz); }
static inline void put(S *o, const A3 &m) { put(o, m.l); put(o + 9, m.p); }
static inline void put(S *o, const Q &q) { o[0] = q.r; o[1] = q.i; o[2] = q.j; o[3] = q.k; }

// ------------------------------------------------------------------------------------------ P1: 2x2
ID(P1_det2__lhs)(const S *in, S *out) { out[0] = mk2(in).det(); }
ID(P1_det2__rhs)(const S *in, S *out) { out[0] = in[0] * in[3] - in[1] * in[2]; }

ID(P1_adj2_mul__lhs)(const S *in, S *out) { L2 m = mk2(in); put(out, m.adjoint() * m); }
ID(P1_adj2_mul__rhs)(const S *in, S *out) { L2 m = mk2(in); S d = in[0] * in[3] - in[1] * in[2]; out[0] = d; out[1] = 0; out[2] = 0; out[3] = d; }

ID(P1_mul_adj2__lhs)(const S *in, S *out) { L2 m = mk2(in); put(out, m * m.adjoint()); }
ID(P1_mul_adj2__rhs)(const S *in, S *out) { S d = in[0] * in[3] - in[1] * in[2]; out[0] = d; out[1] = 0; out[2] = 0; out[3] = d; }

ID(P1_transposed2__lhs)(const S *in, S *out) { put(out, mk2(in).transposed()); }
ID(P1_transposed2__rhs)(const S *in, S *out) { out[0] = in[0]; out[1] = in[2]; out[2] = in[1]; out[3] = in[3]; }

ID(P1_rows2__lhs)(const S *in, S *out) { L2 m = mk2(in); put(out, m.row0()); put(out + 2, m.row1()); }
ID(P1_rows2__rhs)(const S *in, S *out) { out[0] = in[0]; out[1] = in[2]; out[2] = in[1]; out[3] = in[3]; }

ID(P1_inverse2__lhs)(const S *in, S *out) { L2 m = mk2(in); put(out, m * m.inverse()); }
ID(P1_inverse2__rhs)(const S *in, S *out) { out[0] = 1; out[1] = 0; out[2] = 0; out[3] = 1; }

ID(P1_rcp2__lhs)(const S *in, S *out) { L2 m = mk2(in); put(out, rcp(m) * m); }
ID(P1_rcp2__rhs)(const S *in, S *out) { out[0] = 1; out[1] = 0; out[2] = 0; out[3] = 1; }

ID(P1_matvec2__lhs)(const S *in, S *out) { put(out, mk2(in) * V2(in[4], in[5])); }
ID(P1_matvec2__rhs)(const S *in, S *out) { out[0] = in[0] * in[4] + in[2] * in[5]; out[1] = in[1] * in[4] + in[3] * in[5]; }

ID(P1_matmul2__lhs)(const S *in, S *out) { put(out, (mk2(in) * mk2(in + 4)) * V2(in[8], in[9])); }
ID(P1_matmul2__rhs)(const S *in, S *out) { put(out, mk2(in) * (mk2(in + 4) * V2(in[8], in[9]))); }

// ------------------------------------------------------------------------------------------ P2: 3x3
ID(P2_det3__lhs)(const S *in, S *out) { out[0] = mk3(in).det(); }
ID(P2_det3__rhs)(const S *in, S *out)
{
  const S *a = in;
  // Leibniz formula on the column-major entries a[3*col+row]
  out[0] = a[0] * (a[4] * a[8] - a[7] * a[5]) - a[3] * (a[1] * a[8] - a[7] * a[2]) + a[6] * (a[1] * a[5] - a[4] * a[2]);
}

ID(P2_adj3_mul__lhs)(const S *in, S *out) { L3 m = mk3(in); put(out, m.adjoint() * m); }
ID(P2_adj3_mul__rhs)(const S *in, S *out)
{
  S d = mk3(in).det();
  out[0] = d; out[1] = 0; out[2] = 0; out[3] = 0; out[4] = d; out[5] = 0; out[6] = 0; out[7] = 0; out[8] = d;
}

ID(P2_mul_adj3__lhs)(const S *in, S *out) { L3 m = mk3(in); put(out, m * m.adjoint()); }
ID(P2_mul_adj3__rhs)(const S *in, S *out)
{
  const S *a = in;
  S d = a[0] * (a[4] * a[8] - a[7] * a[5]) - a[3] * (a[1] * a[8] - a[7] * a[2]) + a[6] * (a[1] * a[5] - a[4] * a[2]);
  out[0] = d; out[1] = 0; out[2] = 0; out[3] = 0; out[4] = d; out[5] = 0; out[6] = 0; out[7] = 0; out[8] = d;
}

ID(P2_transposed3__lhs)(const S *in, S *out) { put(out, mk3(in).transposed()); }
ID(P2_transposed3__rhs)(const S *in, S *out)
{
  const S *a = in;
  out[0] = a[0]; out[1] = a[3]; out[2] = a[6]; out[3] = a[1]; out[4] = a[4]; out[5] = a[7]; out[6] = a[2]; out[7] = a[5]; out[8] = a[8];
}

ID(P2_rows3__lhs)(const S *in, S *out) { L3 m = mk3(in); put(out, m.row0()); put(out + 3, m.row1()); put(out + 6, m.row2()); }
ID(P2_rows3__rhs)(const S *in, S *out)
{
  const S *a = in;
  out[0] = a[0]; out[1] = a[3]; out[2] = a[6]; out[3] = a[1]; out[4] = a[4]; out[5] = a[7]; out[6] = a[2]; out[7] = a[5]; out[8] = a[8];
}

ID(P2_inverse3__lhs)(const S *in, S *out) { L3 m = mk3(in); put(out, m * m.inverse()); }
ID(P2_inverse3__rhs)(const S *in, S *out) { out[0] = 1; out[1] = 0; out[2] = 0; out[3] = 0; out[4] = 1; out[5] = 0; out[6] = 0; out[7] = 0; out[8] = 1; }

ID(P2_rcp3__lhs)(const S *in, S *out) { L3 m = mk3(in); put(out, rcp(m) * m); }
ID(P2_rcp3__rhs)(const S *in, S *out) { out[0] = 1; out[1] = 0; out[2] = 0; out[3] = 0; out[4] = 1; out[5] = 0; out[6] = 0; out[7] = 0; out[8] = 1; }

// ------------------------------------------------------------------------------------------ P3: products
ID(P3_matvec3__lhs)(const S *in, S *out) { put(out, mk3(in) * V3(in[9], in[10], in[11])); }
ID(P3_matvec3__rhs)(const S *in, S *out)
{
  const S *a = in;
  const S *v = a + 9;
  out[0] = a[0] * v[0] + a[3] * v[1] + a[6] * v[2];
  out[1] = a[1] * v[0] + a[4] * v[1] + a[7] * v[2];
  out[2] = a[2] * v[0] + a[5] * v[1] + a[8] * v[2];
}

ID(P3_matmul3__lhs)(const S *in, S *out) { put(out, (mk3(in) * mk3(in + 9)) * V3(in[18], in[19], in[20])); }
ID(P3_matmul3__rhs)(const S *in, S *out) { put(out, mk3(in) * (mk3(in + 9) * V3(in[18], in[19], in[20]))); }

ID(P3_det_mul2__lhs)(const S *in, S *out) { out[0] = (mk2(in) * mk2(in + 4)).det(); }
ID(P3_det_mul2__rhs)(const S *in, S *out) { out[0] = mk2(in).det() * mk2(in + 4).det(); }

ID(P3_det_mul3__lhs)(const S *in, S *out) { out[0] = (mk3(in) * mk3(in + 9)).det(); }
ID(P3_det_mul3__rhs)(const S *in, S *out) { out[0] = mk3(in).det() * mk3(in + 9).det(); }

ID(P3_xfm_linear__lhs)(const S *in, S *out) { V3 v(in[9], in[10], in[11]); put(out, xfmPoint(mk3(in), v)); put(out + 3, xfmVector(mk3(in), v)); }
ID(P3_xfm_linear__rhs)(const S *in, S *out) { V3 v(in[9], in[10], in[11]); put(out, mk3(in) * v); put(out + 3, mk3(in) * v); }

// xfmNormal is the inverse transpose: <xfmNormal(M,n), M v> = <n, v>
ID(P3_xfm_normal__lhs)(const S *in, S *out) { L3 m = mk3(in); V3 n(in[9], in[10], in[11]), v(in[12], in[13], in[14]); out[0] = dot(xfmNormal(m, n), xfmVector(m, v)); }
ID(P3_xfm_normal__rhs)(const S *in, S *out) { V3 n(in[9], in[10], in[11]), v(in[12], in[13], in[14]); out[0] = dot(n, v); }

// ------------------------------------------------------------------------------------------ P4/P5: affine
ID(P4_xfm_point__lhs)(const S *in, S *out) { put(out, xfmPoint(mka(in), V3(in[12], in[13], in[14]))); }
ID(P4_xfm_point__rhs)(const S *in, S *out) { put(out, mk3(in) * V3(in[12], in[13], in[14]) + V3(in[9], in[10], in[11])); }

ID(P4_compose__lhs)(const S *in, S *out) { put(out, xfmPoint(mka(in) * mka(in + 12), V3(in[24], in[25], in[26]))); }
ID(P4_compose__rhs)(const S *in, S *out) { put(out, xfmPoint(mka(in), xfmPoint(mka(in + 12), V3(in[24], in[25], in[26])))); }

ID(P4_rcp_affine__lhs)(const S *in, S *out) { A3 a = mka(in); put(out, rcp(a) * a); }
ID(P4_rcp_affine__rhs)(const S *in, S *out)
{
  out[0] = 1; out[1] = 0; out[2] = 0; out[3] = 0; out[4] = 1; out[5] = 0; out[6] = 0; out[7] = 0; out[8] = 1; out[9] = 0; out[10] = 0; out[11] = 0;
}

ID(P4_affine_rcp__lhs)(const S *in, S *out) { A3 a = mka(in); put(out, xfmPoint(a, xfmPoint(rcp(a), V3(in[12], in[13], in[14])))); }
ID(P4_affine_rcp__rhs)(const S *in, S *out) { out[0] = in[12]; out[1] = in[13]; out[2] = in[14]; }

ID(P5_xfm_vector__lhs)(const S *in, S *out) { put(out, xfmVector(mka(in), V3(in[12], in[13], in[14]))); }
ID(P5_xfm_vector__rhs)(const S *in, S *out) { put(out, mk3(in) * V3(in[12], in[13], in[14])); }

ID(P5_xfm_normal__lhs)(const S *in, S *out) { A3 a = mka(in); V3 n(in[12], in[13], in[14]), v(in[15], in[16], in[17]); out[0] = dot(xfmNormal(a, n), xfmVector(a, v)); }
ID(P5_xfm_normal__rhs)(const S *in, S *out) { V3 n(in[12], in[13], in[14]), v(in[15], in[16], in[17]); out[0] = dot(n, v); }

// ------------------------------------------------------------------------------------------ P6: quaternions
ID(P6_assoc__lhs)(const S *in, S *out) { put(out, mkq(in) * (mkq(in + 4) * mkq(in + 8))); }
ID(P6_assoc__rhs)(const S *in, S *out) { put(out, (mkq(in) * mkq(in + 4)) * mkq(in + 8)); }

ID(P6_unit__lhs)(const S *in, S *out) { Q q = mkq(in); put(out, Q(one) * q); put(out + 4, q * Q(one)); }
ID(P6_unit__rhs)(const S *in, S *out) { out[0] = in[0]; out[1] = in[1]; out[2] = in[2]; out[3] = in[3]; out[4] = in[0]; out[5] = in[1]; out[6] = in[2]; out[7] = in[3]; }

// i*j = k, j*k = i, k*i = j, i*i = -1
ID(P6_basis__lhs)(const S *in, S *out)
{
  Q i(0, 1, 0, 0), j(0, 0, 1, 0), k(0, 0, 0, 1);
  put(out, i * j); put(out + 4, j * k); put(out + 8, k * i); put(out + 12, i * i); put(out + 16, j * i);
}
ID(P6_basis__rhs)(const S *in, S *out)
{
  out[0] = 0; out[1] = 0; out[2] = 0; out[3] = 1;      // i*j = k
  out[4] = 0; out[5] = 1; out[6] = 0; out[7] = 0;      // j*k = i
  out[8] = 0; out[9] = 0; out[10] = 1; out[11] = 0;    // k*i = j
  out[12] = -1; out[13] = 0; out[14] = 0; out[15] = 0; // i*i = -1
  out[16] = 0; out[17] = 0; out[18] = 0; out[19] = -1; // j*i = -k
}

ID(P6_conj__lhs)(const S *in, S *out) { put(out, conj(mkq(in))); put(out + 4, mkq(in) * conj(mkq(in))); }
ID(P6_conj__rhs)(const S *in, S *out)
{
  out[0] = in[0]; out[1] = -in[1]; out[2] = -in[2]; out[3] = -in[3];
  out[4] = in[0] * in[0] + in[1] * in[1] + in[2] * in[2] + in[3] * in[3]; out[5] = 0; out[6] = 0; out[7] = 0;
}

ID(P6_rcp__lhs)(const S *in, S *out) { Q q = mkq(in); put(out, q * rcp(q)); put(out + 4, rcp(q) * q); }
ID(P6_rcp__rhs)(const S *in, S *out) { out[0] = 1; out[1] = 0; out[2] = 0; out[3] = 0; out[4] = 1; out[5] = 0; out[6] = 0; out[7] = 0; }

ID(P6_layout__lhs)(const S *in, S *out) { Q q = mkq(in); put(out, q.v()); out[3] = dot(q, mkq(in + 4)); }
ID(P6_layout__rhs)(const S *in, S *out) { out[0] = in[1]; out[1] = in[2]; out[2] = in[3]; out[3] = in[0] * in[4] + in[1] * in[5] + in[2] * in[6] + in[3] * in[7]; }

// ------------------------------------------------------------------------------------------ P7: matrix from quaternion = q v conj(q)
ID(P7_quat_matrix__lhs)(const S *in, S *out) { put(out, L3(mkq(in)) * V3(in[4], in[5], in[6])); }
ID(P7_quat_matrix__rhs)(const S *in, S *out) { put(out, mkq(in) * V3(in[4], in[5], in[6])); }

// composition: matrix(q1*q2) = matrix(q1)*matrix(q2)
ID(P7_quat_compose__lhs)(const S *in, S *out) { put(out, L3(mkq(in) * mkq(in + 4))); }
ID(P7_quat_compose__rhs)(const S *in, S *out) { put(out, L3(mkq(in)) * L3(mkq(in + 4))); }

// ------------------------------------------------------------------------------------------ P8: quaternion from matrix, each branch
// out = the six 2x2 minors of (result, q): all zero iff result is parallel to q. The matrix handed to the
// constructor is L3(q)/|q|^2, the exact rotation matrix of any non-zero q, so the identity is unconditional.
ID(P8_quat_from_matrix__zero)(const S *in, S *out)
{
  Q q = mkq(in);
  L3 m = L3(q) / dot(q, q);
  Q p(m.vx, m.vy, m.vz);
  out[0] = p.r * q.i - p.i * q.r;
  out[1] = p.r * q.j - p.j * q.r;
  out[2] = p.r * q.k - p.k * q.r;
  out[3] = p.i * q.j - p.j * q.i;
  out[4] = p.i * q.k - p.k * q.i;
  out[5] = p.j * q.k - p.k * q.j;
}

// ------------------------------------------------------------------------------------------ P9: rotations
ID(P9_rotate2__lhs)(const S *in, S *out) { put(out, L2::rotate(in[0])); }
ID(P9_rotate2__rhs)(const S *in, S *out) { S s = sin(in[0]), c = cos(in[0]); out[0] = c; out[1] = s; out[2] = -s; out[3] = c; }

ID(P9_rotate3__lhs)(const S *in, S *out) { put(out, L3::rotate(V3(in[0], in[1], in[2]), in[3])); }
ID(P9_rotate3__rhs)(const S *in, S *out)
{
  // Rodrigues: c*I + (1-c)*u*u^T + s*[u]x with u the normalised axis, written column by column
  V3 u = normalize(V3(in[0], in[1], in[2]));
  S s = sin(in[3]), c = cos(in[3]);
  out[0] = c + (1 - c) * u.x * u.x;       out[1] = (1 - c) * u.y * u.x + s * u.z; out[2] = (1 - c) * u.z * u.x - s * u.y;
  out[3] = (1 - c) * u.x * u.y - s * u.z; out[4] = c + (1 - c) * u.y * u.y;       out[5] = (1 - c) * u.z * u.y + s * u.x;
  out[6] = (1 - c) * u.x * u.z + s * u.y; out[7] = (1 - c) * u.y * u.z - s * u.x; out[8] = c + (1 - c) * u.z * u.z;
}

// quaternion rotation about an axis agrees with the matrix rotation (half-angle identities are axioms:
// the check substitutes s = 2 sh ch, c = ch^2 - sh^2 and |u| = 1)
ID(P9_quat_rotate__lhs)(const S *in, S *out) { put(out, Q::rotate(V3(in[0], in[1], in[2]), in[3])); }
ID(P9_quat_rotate__rhs)(const S *in, S *out)
{
  V3 u = normalize(V3(in[0], in[1], in[2]));
  S h = S(0.5) * in[3];
  out[0] = cos(h); out[1] = sin(h) * u.x; out[2] = sin(h) * u.y; out[3] = sin(h) * u.z;
}

// the matrix of the quaternion rotation by 2h about u is Rodrigues' matrix written with the half angle
// (c = ch^2 - sh^2, s = 2 sh ch); together with P9_rotate3 this ties L3::rotate to Q::rotate up to the
// double-angle formulas
ID(P9_quat_matrix_rotation__lhs)(const S *in, S *out) { put(out, L3(Q::rotate(V3(in[0], in[1], in[2]), S(2) * in[3]))); }
ID(P9_quat_matrix_rotation__rhs)(const S *in, S *out)
{
  V3 u = normalize(V3(in[0], in[1], in[2]));
  S sh = sin(in[3]), ch = cos(in[3]);
  S c = ch * ch - sh * sh, s = S(2) * sh * ch;
  out[0] = c + (1 - c) * u.x * u.x;       out[1] = (1 - c) * u.y * u.x + s * u.z; out[2] = (1 - c) * u.z * u.x - s * u.y;
  out[3] = (1 - c) * u.x * u.y - s * u.z; out[4] = c + (1 - c) * u.y * u.y;       out[5] = (1 - c) * u.z * u.y + s * u.x;
  out[6] = (1 - c) * u.x * u.z + s * u.y; out[7] = (1 - c) * u.y * u.z - s * u.x; out[8] = c + (1 - c) * u.z * u.z;
}

// ------------------------------------------------------------------------------------------ P10: scale / translate / rotate about a point
ID(P10_scale__lhs)(const S *in, S *out) { put(out, xfmPoint(A3::scale(V3(in[0], in[1], in[2])), V3(in[3], in[4], in[5]))); }
ID(P10_scale__rhs)(const S *in, S *out) { out[0] = in[0] * in[3]; out[1] = in[1] * in[4]; out[2] = in[2] * in[5]; }

ID(P10_translate__lhs)(const S *in, S *out) { put(out, xfmPoint(A3::translate(V3(in[0], in[1], in[2])), V3(in[3], in[4], in[5]))); }
ID(P10_translate__rhs)(const S *in, S *out) { out[0] = in[0] + in[3]; out[1] = in[1] + in[4]; out[2] = in[2] + in[5]; }

ID(P10_rotate_about__lhs)(const S *in, S *out)
{
  V3 p(in[0], in[1], in[2]), u(in[3], in[4], in[5]), x(in[7], in[8], in[9]);
  put(out, xfmPoint(A3::rotate(p, u, in[6]), x));
}
ID(P10_rotate_about__rhs)(const S *in, S *out)
{
  V3 p(in[0], in[1], in[2]), u(in[3], in[4], in[5]), x(in[7], in[8], in[9]);
  put(out, L3::rotate(u, in[6]) * V3(x - p) + p);
}

// note: AffineSpaceT::rotate(p, quaternion) cannot be instantiated at all (`translate(+p) * L(q)` has no viable
// operator*), so there is nothing to check for it.

// ------------------------------------------------------------------------------------------ P11: lookat / frame
ID(P11_lookat__lhs)(const S *in, S *out) { put(out, A3::lookat(V3(in[0], in[1], in[2]), V3(in[3], in[4], in[5]), V3(in[6], in[7], in[8]))); }
ID(P11_lookat__rhs)(const S *in, S *out)
{
  V3 eye(in[0], in[1], in[2]), point(in[3], in[4], in[5]), up(in[6], in[7], in[8]);
  V3 Z = normalize(point - eye);
  V3 U = normalize(cross(Z, up));
  V3 V = cross(U, Z);
  put(out, U); put(out + 3, V); put(out + 6, Z); put(out + 9, eye);
}

// ------------------------------------------------------------------------------------------ P12: yaw / pitch / roll
ID(P12_ypr__lhs)(const S *in, S *out) { put(out, Q(in[0], in[1], in[2])); }
ID(P12_ypr__rhs)(const S *in, S *out)
{
  // product of three elementary half-angle rotations; axis order as identified on the pinned tree:
  // yaw about y (j), pitch about x (i), roll about z (k):  q = qyaw * qpitch * qroll
  S hy = in[0] * S(.5), hp = in[1] * S(.5), hr = in[2] * S(.5);
  Q qy(cos(hy), 0, sin(hy), 0), qp(cos(hp), sin(hp), 0, 0), qr(cos(hr), 0, 0, sin(hr));
  put(out, qy * qp * qr);
}

// ------------------------------------------------------------------------------------------ P13: compound assignment and
// the remaining binary operators agree with the binary products they are defined by
#define REP4(M) M(0) M(1) M(2) M(3)
#define REP9(M) REP4(M) M(4) M(5) M(6) M(7) M(8)
#define REP12(M) REP9(M) M(9) M(10) M(11)

ID(P13_l2_muleq__lhs)(const S *in, S *out) { L2 m = mk2(in); m *= mk2(in + 4); put(out, m); }
ID(P13_l2_muleq__rhs)(const S *in, S *out) { put(out, mk2(in) * mk2(in + 4)); }

ID(P13_l2_diveq__lhs)(const S *in, S *out) { L2 d = mk2(in); d /= mk2(in + 4); put(out, d); }
ID(P13_l2_diveq__rhs)(const S *in, S *out) { put(out, mk2(in) * mk2(in + 4).inverse()); }

ID(P13_l2_addsub__lhs)(const S *in, S *out) { L2 a = mk2(in), b = mk2(in + 4); put(out, a + b); put(out + 4, a - b); put(out + 8, -a); }
ID(P13_l2_addsub__rhs)(const S *in, S *out)
{
#define E(k) out[k] = in[k] + in[4 + k]; out[4 + k] = in[k] - in[4 + k]; out[8 + k] = -in[k];
  REP4(E)
#undef E
}

ID(P13_l3_ops__lhs)(const S *in, S *out)
{
  L3 a = mk3(in), b = mk3(in + 9);
  L3 m = a; m *= b; put(out, m);
  L3 d = a; d /= b; put(out + 9, d);
  put(out + 18, a + b); put(out + 27, a - b); put(out + 36, -a); put(out + 45, in[18] * a); put(out + 54, a / in[18]);
}
ID(P13_l3_ops__rhs)(const S *in, S *out)
{
  L3 a = mk3(in), b = mk3(in + 9);
  put(out, a * b);
  put(out + 9, a * b.inverse());
#define E(k) out[18 + k] = in[k] + in[9 + k]; out[27 + k] = in[k] - in[9 + k]; out[36 + k] = -in[k]; out[45 + k] = in[18] * in[k]; out[54 + k] = in[k] / in[18];
  REP9(E)
#undef E
}

ID(P13_affine_ops__lhs)(const S *in, S *out)
{
  A3 a = mka(in), b = mka(in + 12);
  A3 m = a; m *= b; put(out, m);
  A3 d = a; d /= b; put(out + 12, d);
  put(out + 24, a + b); put(out + 36, a - b); put(out + 48, -a); put(out + 60, in[24] * a);
}
ID(P13_affine_ops__rhs)(const S *in, S *out)
{
  A3 a = mka(in), b = mka(in + 12);
  put(out, a * b);
  put(out + 12, a * rcp(b));
#define E(k) out[24 + k] = in[k] + in[12 + k]; out[36 + k] = in[k] - in[12 + k]; out[48 + k] = -in[k]; out[60 + k] = in[24] * in[k];
  REP12(E)
#undef E
}

ID(P13_quat_ops__lhs)(const S *in, S *out)
{
  Q a = mkq(in), b = mkq(in + 4);
  Q m = a; m *= b; put(out, m);
  Q d = a; d /= b; put(out + 4, d);
  Q p = a; p += b; put(out + 8, p);
  Q n = a; n -= b; put(out + 12, n);
  Q ms = a; ms *= in[8]; put(out + 16, ms);
  Q ds = a; ds /= in[8]; put(out + 20, ds);
  put(out + 24, a + b); put(out + 28, a - b); put(out + 32, -a); put(out + 36, in[8] * a); put(out + 40, a * in[8]);
  put(out + 44, a / b); put(out + 48, a + in[8]); put(out + 52, in[8] - a);
}
ID(P13_quat_ops__rhs)(const S *in, S *out)
{
  Q a = mkq(in), b = mkq(in + 4);
  S s = in[8];
  put(out, a * b);
  put(out + 4, a * rcp(b));
#define E(k) out[8 + k] = in[k] + in[4 + k]; out[12 + k] = in[k] - in[4 + k]; out[16 + k] = in[k] * s; out[20 + k] = in[k] / s; \
             out[24 + k] = in[k] + in[4 + k]; out[28 + k] = in[k] - in[4 + k]; out[32 + k] = -in[k]; out[36 + k] = s * in[k]; out[40 + k] = in[k] * s;
  REP4(E)
#undef E
  put(out + 44, a * rcp(b));
  out[48] = in[0] + s; out[49] = in[1]; out[50] = in[2]; out[51] = in[3];
  out[52] = s - in[0]; out[53] = -in[1]; out[54] = -in[2]; out[55] = -in[3];
}

// ------------------------------------------------------------------------------------------ P14: slerp end points
// slerp(0, a, b) is the (hemisphere-corrected) first operand and slerp(1, a, b) the second one, on both branches: on the spherical branch
// the weights are fb = sin(t*th)/sin(th), fa = cos(t*th) - d*fb with th = acos(d)
// (sin 0 = 0, cos 0 = 1, cos(acos d) = d are the trig facts used); on the nearly-parallel branch the normalised lerp.
ID(P14_slerp_ends__lhs)(const S *in, S *out)
{
  Q a = mkq(in), b = mkq(in + 4);
  put(out, slerp(0.f, a, b));
  put(out + 4, slerp(1.f, a, b));
}
ID(P14_slerp_ends__rhs)(const S *in, S *out)
{
  S d = in[0] * in[4] + in[1] * in[5] + in[2] * in[6] + in[3] * in[7];
  S sg = 1;
  if (d < 0.) {
    sg = -1;
    d  = -d;
  }
  if (d > 0.9995) {
    const S la = std::sqrt(in[0] * in[0] + in[1] * in[1] + in[2] * in[2] + in[3] * in[3]);
    const S lb = std::sqrt(in[4] * in[4] + in[5] * in[5] + in[6] * in[6] + in[7] * in[7]);
    for (int k = 0; k < 4; ++k) {
      out[k]     = sg * in[k] / la;
      out[4 + k] = in[4 + k] / lb;
    }
    return;
  }
  for (int k = 0; k < 4; ++k) {
    out[k]     = sg * in[k];
    out[4 + k] = in[4 + k];
  }
}
