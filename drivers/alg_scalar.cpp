// Identity driver for C07 (scalar math kernels).  Compiled to LLVM IR (never linked, never run) under
// SIMD and -DRKCOMMON_NO_SIMD; rkstatic/irnorm.py reads the IR of each K_* function.  Each function
// computes one kernel through rkcommon's public API; parameter names are part of the contract with
// rules/C07.py (they become the input symbols).
#include "rkcommon/math/vec.h"
#include "rkcommon/utility/random.h"

using namespace rkcommon::math;
using namespace rkcommon::utility;

// a generator with a non-zero minimum and a power-of-two span, so that the (g - min) / (max - min)
// form of uniform_real_distribution is visible exactly in the IR
struct RkvGen
{
  unsigned v;
  static constexpr unsigned min()
  {
    return 16u;
  }
  static constexpr unsigned max()
  {
    return 1040u;
  }
  unsigned operator()()
  {
    return v;
  }
};

// a generator with more than 32 random bits: span 2^40 + 1024 (its low 32 bits are 1024, so a narrowed span is visible)
struct RkvGen64
{
  uint64_t v;
  static constexpr uint64_t min()
  {
    return 16u;
  }
  static constexpr uint64_t max()
  {
    return (uint64_t(1) << 40) + 1040u;
  }
  uint64_t operator()()
  {
    return v;
  }
};

extern "C" {
// R-C07-1 / R-C07-2
float K_rcp(float x) { return rcp(x); }
float K_rsqrt(float x) { return rsqrt(x); }
double K_rcp_d(double x) { return rcp(x); }
double K_rsqrt_d(double x) { return rsqrt(x); }
float K_rcp_safe(float x) { return rcp_safe(x); }
double K_rcp_safe_d(double x) { return rcp_safe(x); }

// R-C07-3
float K_clamp_f(float x, float lo, float hi) { return clamp(x, lo, hi); }
double K_clamp_d(double x, double lo, double hi) { return clamp(x, lo, hi); }
int K_clamp_i(int x, int lo, int hi) { return clamp(x, lo, hi); }
float K_clamp01(float x) { return clamp(x); }
int K_divRoundUp_i(int a, int b) { return divRoundUp(a, b); }
unsigned K_divRoundUp_u(unsigned a, unsigned b) { return divRoundUp(a, b); }
size_t K_divRoundUp_ul(size_t a, size_t b) { return divRoundUp(a, b); }
// element types narrower than int (vec2uc / vec3s ... instantiate them): the operands are promoted, only the quotient is narrowed
unsigned char K_divRoundUp_u8(unsigned char a, unsigned char b) { return divRoundUp(a, b); }
short K_divRoundUp_s16(short a, short b) { return divRoundUp(a, b); }
float K_sign(float x) { return sign(x); }
float K_lerp(float f, float a, float b) { return lerp(f, a, b); }
double K_lerp_d(float f, double a, double b) { return lerp(f, a, b); }
float K_madd(float a, float b, float c) { return madd(a, b, c); }
float K_deg2rad(float x) { return deg2rad(x); }
double K_deg2rad_d(double x) { return deg2rad(x); }

// R-C07-4
uint32_t K_cvt1(float f) { return cvt_uint32(f); }
uint32_t K_cvt4(const vec4f *v) { return cvt_uint32(*v); }
float K_srgb(float f) { return linear_to_srgb(f); }
void K_srgba(const vec4f *c, vec4f *out) { *out = linear_to_srgba(*c); }
uint32_t K_srgba8(const vec4f *c) { return linear_to_srgba8(*c); }

// R-C07-5
void K_pcg_ctor(pcg32_biased_float_distribution *d, int seed, int seq, float lo, float hi)
{
  new (d) pcg32_biased_float_distribution(seed, seq, lo, hi);
}
float K_pcg_call(pcg32_biased_float_distribution *d) { return (*d)(); }
unsigned K_pcg_raw(pcg32 *d) { return (*d)(); }
void K_urd_ctor(uniform_real_distribution<float> *d, float lo, float hi)
{
  new (d) uniform_real_distribution<float>(lo, hi);
}
void K_urd_ctor_d(uniform_real_distribution<double> *d, double lo, double hi)
{
  new (d) uniform_real_distribution<double>(lo, hi);
}
float K_urd_gen(uniform_real_distribution<float> *d, RkvGen *g) { return (*d)(*g); }
double K_urd_gen_d(uniform_real_distribution<double> *d, RkvGen *g) { return (*d)(*g); }
float K_urd_pcg(uniform_real_distribution<float> *d, pcg32 *g) { return (*d)(*g); }
double K_urd_gen64_d(uniform_real_distribution<double> *d, RkvGen64 *g) { return (*d)(*g); }
float K_urd_gen64(uniform_real_distribution<float> *d, RkvGen64 *g) { return (*d)(*g); }
// lerp over integer element types (the definition converts each operand to float first)
unsigned K_lerp_u(float f, unsigned a, unsigned b) { return lerp(f, a, b); }
int K_lerp_i(float f, int a, int b) { return lerp(f, a, b); }
}
