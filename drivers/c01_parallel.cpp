// Instantiation driver for C01 (parallel_for / parallel_foreach / parallel_in_blocks_of).
// Parsed with -fsyntax-only under the four tasking configurations; never linked or run.
#include "rkcommon/tasking/parallel_for.h"
#include "rkcommon/tasking/parallel_foreach.h"

#include <array>
#include <deque>
#include <cstddef>
#include <vector>

namespace rkverif_c01 {

  using namespace rkcommon::tasking;

  // ---- parallel_for for the 8 accepted index types (named functors: stable instance names)
  template <typename INDEX_T>
  struct Body
  {
    long long *out;
    void operator()(INDEX_T i) const
    {
      out[(size_t)i] += 1;
    }
  };

  template <typename INDEX_T>
  void run_for(INDEX_T n, long long *out)
  {
    parallel_for(n, Body<INDEX_T>{out});
  }

  template void run_for<unsigned char>(unsigned char, long long *);
  template void run_for<short>(short, long long *);
  template void run_for<int>(int, long long *);
  template void run_for<unsigned>(unsigned, long long *);
  template void run_for<long>(long, long long *);
  template void run_for<long long>(long long, long long *);
  template void run_for<unsigned long long>(unsigned long long, long long *);
  template void run_for<size_t>(size_t, long long *);

  // an lvalue functor (TASK_T deduced as an lvalue reference) and a lambda
  void run_for_lvalue(int n, long long *out)
  {
    Body<int> b{out};
    parallel_for(n, b);
    parallel_for(n, [&](int i) { out[i] += 1; });
  }

  // ---- parallel_in_blocks_of<16> for every accepted index type
  template <typename INDEX_T>
  struct BlockBody
  {
    long long *out;
    void operator()(INDEX_T begin, INDEX_T end) const
    {
      for (INDEX_T i = begin; i < end; ++i)
        out[(size_t)i] += 1;
    }
  };

  template <typename INDEX_T>
  void run_blocks(INDEX_T n, long long *out)
  {
    parallel_in_blocks_of<16>(n, BlockBody<INDEX_T>{out});
  }

#ifdef RKVERIF_C01_SMALL_BLOCKS  // W-C01-3 decides first whether these two compile at all
  template void run_blocks<unsigned char>(unsigned char, long long *);
  template void run_blocks<short>(short, long long *);
#endif
  template void run_blocks<int>(int, long long *);
  template void run_blocks<unsigned>(unsigned, long long *);
  template void run_blocks<long>(long, long long *);
  template void run_blocks<long long>(long long, long long *);
  template void run_blocks<unsigned long long>(unsigned long long, long long *);
  template void run_blocks<size_t>(size_t, long long *);

  // ---- parallel_foreach on iterator ranges and containers
  struct Elem
  {
    void operator()(int &v) const
    {
      v += 1;
    }
  };

  struct CElem
  {
    void operator()(const double &v) const
    {
      (void)v;
    }
  };

  // std::deque has random-access iterators (accepted by parallel_foreach's static_assert) but no contiguous storage
  void run_foreach_deque(std::deque<int> &d)
  {
    parallel_foreach(d.begin(), d.end(), Elem{});
    parallel_foreach(d, Elem{});
  }

  void run_foreach(std::vector<int> &v, std::array<int, 64> &a, const std::vector<double> &cv, int *p, int n)
  {
    parallel_foreach(v.begin(), v.end(), Elem{});
    parallel_foreach(a.begin(), a.end(), Elem{});
    parallel_foreach(p, p + n, Elem{});
    parallel_foreach(v, Elem{});
    parallel_foreach(a, Elem{});
    parallel_foreach(cv, CElem{});
  }

  // ---- nested call: a parallel loop issued from inside the body of another one
  void run_nested(int n, int m, long long *out)
  {
    parallel_for(n, [&](int i) {
      parallel_for(m, [&](int j) { out[(size_t)i * (size_t)m + (size_t)j] += 1; });
    });
  }

}  // namespace rkverif_c01
