// Instantiation driver for C02 (schedule / async / AsyncTask). Parsed with -fsyntax-only under the four
// tasking configurations (TBB, OMP, INTERNAL, DEBUG); never linked or run.
#include "rkcommon/tasking/AsyncTask.h"
#include "rkcommon/tasking/async.h"
#include "rkcommon/tasking/parallel_for.h"
#include "rkcommon/tasking/schedule.h"

#include <string>

namespace rkverif {
  namespace c02 {

    // a closure owning heap state, returning nothing
    struct Job
    {
      std::string owned;
      void operator()() const {}
    };

    // closures with a trivial and with a heap-owning result
    struct IntJob
    {
      int operator()() const
      {
        return 42;
      }
    };

    struct StringJob
    {
      std::string operator()() const
      {
        return std::string(64, 'x');
      }
    };

    inline void use_schedule()
    {
      rkcommon::tasking::schedule(Job{});
    }

    inline int use_async_int()
    {
      auto f = rkcommon::tasking::async(IntJob{});
      return f.get();
    }

    inline std::string use_async_string()
    {
      StringJob job;
      auto f = rkcommon::tasking::async(job);  // lvalue closure: TASK_T deduced as a reference
      return f.get();
    }

    inline int use_async_task_int()
    {
      rkcommon::tasking::AsyncTask<int> t(IntJob{});
      t.wait();
      return t.finished() && t.valid() ? t.get() : 0;
    }

    inline std::string use_async_task_string()
    {
      rkcommon::tasking::AsyncTask<std::string> t(StringJob{});
      return t.get();
    }

    // not part of C02 itself: instantiated so that *every* enki::ITaskSet::ExecuteRange override of the library
    // (parallel_for_internal's LocalTask) is present when R-C02-6 enumerates them
    inline void use_parallel_for()
    {
      rkcommon::tasking::parallel_for(8, [](int) {});
    }

  }  // namespace c02
}  // namespace rkverif

namespace rkcommon {
  namespace tasking {
    template struct AsyncTask<int>;
    template struct AsyncTask<std::string>;
  }  // namespace tasking
}  // namespace rkcommon
