// Instantiation driver for C03 (AsyncLoop). Parsed with -fsyntax-only, never linked or run.
#include "rkcommon/tasking/AsyncLoop.h"

namespace rkverif {
  struct C03Body
  {
    void operator()() const {}
  };

  // the constructor template (and with it the loop-thread lambda `mainLoop`) is instantiated for a
  // functor object and for a closure; both launch branches (THREAD / TASK) live in the same constructor
  inline void c03_use_asyncloop()
  {
    using rkcommon::tasking::AsyncLoop;
    C03Body body;
    AsyncLoop a(body, AsyncLoop::THREAD);
    a.start();
    a.stop();
    int counter = 0;
    AsyncLoop b([&counter]() { ++counter; }, AsyncLoop::TASK);
    b.start();
    b.stop();
  }
}  // namespace rkverif
