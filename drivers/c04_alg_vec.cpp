// Identity drivers for C04 (IR cross-check, thorough tier). Compiled to LLVM IR, never linked or run.
// Every pair L_<id> / R_<id>: L computes through rkcommon's vec_t API (real overload resolution, constructors,
// conversions, inlining by the compiler), R is the per-component scalar definition written out.  rkstatic.irnorm
// maps both to terms over the loaded inputs; they must be identical slot by slot.
#include <algorithm>
#include <functional>
#include "rkcommon/math/vec.h"
using namespace rkcommon::math;

#define ST2(r) out[0] = (r).x; out[1] = (r).y;
#define ST3(r) ST2(r) out[2] = (r).z;
#define ST4(r) ST3(r) out[3] = (r).w;
#define EL2(X) { const int i = 0; out[0] = X; } { const int i = 1; out[1] = X; }
#define EL3(X) EL2(X) { const int i = 2; out[2] = X; }
#define EL4(X) EL3(X) { const int i = 3; out[3] = X; }

// one shape: V vector type, S component count, ID suffix
#define ARITH(T, V, S, ID)                                                                               \
  extern "C" void L_neg_##ID(const T *a, T *out) { auto r = -V(a); ST##S(r) }                             \
  extern "C" void R_neg_##ID(const T *a, T *out) { EL##S(-a[i]) }                                         \
  extern "C" void L_add_vv_##ID(const T *a, const T *b, T *out) { auto r = V(a) + V(b); ST##S(r) }         \
  extern "C" void R_add_vv_##ID(const T *a, const T *b, T *out) { EL##S(a[i] + b[i]) }                     \
  extern "C" void L_sub_vv_##ID(const T *a, const T *b, T *out) { auto r = V(a) - V(b); ST##S(r) }         \
  extern "C" void R_sub_vv_##ID(const T *a, const T *b, T *out) { EL##S(a[i] - b[i]) }                     \
  extern "C" void L_mul_vv_##ID(const T *a, const T *b, T *out) { auto r = V(a) * V(b); ST##S(r) }         \
  extern "C" void R_mul_vv_##ID(const T *a, const T *b, T *out) { EL##S(a[i] * b[i]) }                     \
  extern "C" void L_div_vv_##ID(const T *a, const T *b, T *out) { auto r = V(a) / V(b); ST##S(r) }         \
  extern "C" void R_div_vv_##ID(const T *a, const T *b, T *out) { EL##S(a[i] / b[i]) }                     \
  extern "C" void L_div_vs_##ID(const T *a, T s, T *out) { auto r = V(a) / s; ST##S(r) }                   \
  extern "C" void R_div_vs_##ID(const T *a, T s, T *out) { EL##S(a[i] / s) }                               \
  extern "C" void L_div_sv_##ID(const T *a, T s, T *out) { auto r = s / V(a); ST##S(r) }                   \
  extern "C" void R_div_sv_##ID(const T *a, T s, T *out) { EL##S(s / a[i]) }                               \
  extern "C" void L_diveq_vs_##ID(const T *a, T s, T *out) { V r(a); r /= s; ST##S(r) }                    \
  extern "C" void R_diveq_vs_##ID(const T *a, T s, T *out) { EL##S(a[i] / s) }                             \
  extern "C" void L_diveq_vv_##ID(const T *a, const T *b, T *out) { V r(a); r /= V(b); ST##S(r) }          \
  extern "C" void R_diveq_vv_##ID(const T *a, const T *b, T *out) { EL##S(a[i] / b[i]) }                   \
  extern "C" void L_sub_vs_##ID(const T *a, T s, T *out) { auto r = V(a) - s; ST##S(r) }                   \
  extern "C" void R_sub_vs_##ID(const T *a, T s, T *out) { EL##S(a[i] - s) }                               \
  extern "C" void L_sub_sv_##ID(const T *a, T s, T *out) { auto r = s - V(a); ST##S(r) }                   \
  extern "C" void R_sub_sv_##ID(const T *a, T s, T *out) { EL##S(s - a[i]) }                               \
  extern "C" void L_mul_sv_##ID(const T *a, T s, T *out) { auto r = s * V(a); ST##S(r) }                   \
  extern "C" void R_mul_sv_##ID(const T *a, T s, T *out) { EL##S(s * a[i]) }                               \
  extern "C" void L_subeq_vv_##ID(const T *a, const T *b, T *out) { V r(a); r -= V(b); ST##S(r) }          \
  extern "C" void R_subeq_vv_##ID(const T *a, const T *b, T *out) { EL##S(a[i] - b[i]) }                   \
  extern "C" void L_muleq_vs_##ID(const T *a, T s, T *out) { V r(a); r *= s; ST##S(r) }                    \
  extern "C" void R_muleq_vs_##ID(const T *a, T s, T *out) { EL##S(a[i] * s) }                             \
  extern "C" void L_min_##ID(const T *a, const T *b, T *out) { auto r = min(V(a), V(b)); ST##S(r) }        \
  extern "C" void R_min_##ID(const T *a, const T *b, T *out) { EL##S(std::min(a[i], b[i])) }               \
  extern "C" void L_max_##ID(const T *a, const T *b, T *out) { auto r = max(V(a), V(b)); ST##S(r) }        \
  extern "C" void R_max_##ID(const T *a, const T *b, T *out) { EL##S(std::max(a[i], b[i])) }               \
  extern "C" void L_index_##ID(const T *a, T *out) { const V r(a); EL##S(r[i]) }                           \
  extern "C" void R_index_##ID(const T *a, T *out) { EL##S(a[i]) }                                         \
  extern "C" void L_ptr_##ID(const T *a, T *out) { const V r(a); const T *p = r; EL##S(p[i]) }             \
  extern "C" void R_ptr_##ID(const T *a, T *out) { EL##S(a[i]) }                                           \
  /* construction from a pointer touches exactly the N source elements: the whole constructed object is handed out */ \
  extern "C" void L_ctorptr_whole_##ID(const T *v, V *out) { *out = V(v); }                               \
  extern "C" void R_ctorptr_whole_##ID(const T *v, V *out) { T *o = &out->x; { T *out = o; EL##S(v[i]) } } \
  extern "C" void L_bcast_##ID(T s, T *out) { V r(s); ST##S(r) }                                           \
  extern "C" void R_bcast_##ID(T s, T *out) { EL##S(s) }

#define FOLD2(T, V, ID)                                                                                       \
  extern "C" T L_dot_##ID(const T *a, const T *b) { return dot(V(a), V(b)); }                                 \
  extern "C" T R_dot_##ID(const T *a, const T *b) { return a[0] * b[0] + a[1] * b[1]; }                       \
  extern "C" T L_radd_##ID(const T *a) { return reduce_add(V(a)); }                                           \
  extern "C" T R_radd_##ID(const T *a) { return a[0] + a[1]; }                                                \
  extern "C" T L_rmul_##ID(const T *a) { return reduce_mul(V(a)); }                                           \
  extern "C" T R_rmul_##ID(const T *a) { return a[0] * a[1]; }                                                \
  extern "C" T L_sum_##ID(const T *a) { return V(a).sum(); }                                                  \
  extern "C" T R_sum_##ID(const T *a) { return a[0] + a[1]; }                                                 \
  extern "C" T L_product_##ID(const T *a) { return V(a).product(); }                                          \
  extern "C" T R_product_##ID(const T *a) { return a[0] * a[1]; }                                             \
  extern "C" T L_rmin_##ID(const T *a) { return reduce_min(V(a)); }                                           \
  extern "C" T R_rmin_##ID(const T *a) { return std::min(a[0], a[1]); }                                       \
  extern "C" T L_rmax_##ID(const T *a) { return reduce_max(V(a)); }                                           \
  extern "C" T R_rmax_##ID(const T *a) { return std::max(a[0], a[1]); }                                       \
  extern "C" bool L_eq_##ID(const T *a, const T *b) { return V(a) == V(b); }                                  \
  extern "C" bool R_eq_##ID(const T *a, const T *b) { return a[0] == b[0] && a[1] == b[1]; }                  \
  extern "C" bool L_ne_##ID(const T *a, const T *b) { return V(a) != V(b); }                                  \
  extern "C" bool R_ne_##ID(const T *a, const T *b) { return !(a[0] == b[0] && a[1] == b[1]); }               \
  extern "C" bool L_anylt_##ID(const T *a, const T *b) { return anyLessThan(V(a), V(b)); }                    \
  extern "C" bool R_anylt_##ID(const T *a, const T *b) { return a[0] < b[0] || a[1] < b[1]; }                 \
  extern "C" bool L_less_##ID(const T *a, const T *b) { return std::less<V>()(V(a), V(b)); }                  \
  extern "C" bool R_less_##ID(const T *a, const T *b) { return a[0] < b[0] || (a[0] == b[0] && a[1] < b[1]); }

#define FOLD3(T, V, ID)                                                                                       \
  extern "C" T L_dot_##ID(const T *a, const T *b) { return dot(V(a), V(b)); }                                 \
  extern "C" T R_dot_##ID(const T *a, const T *b) { return a[0] * b[0] + a[1] * b[1] + a[2] * b[2]; }         \
  extern "C" T L_radd_##ID(const T *a) { return reduce_add(V(a)); }                                           \
  extern "C" T R_radd_##ID(const T *a) { return a[0] + a[1] + a[2]; }                                         \
  extern "C" T L_rmul_##ID(const T *a) { return reduce_mul(V(a)); }                                           \
  extern "C" T R_rmul_##ID(const T *a) { return a[0] * a[1] * a[2]; }                                         \
  extern "C" T L_sum_##ID(const T *a) { return V(a).sum(); }                                                  \
  extern "C" T R_sum_##ID(const T *a) { return a[0] + a[1] + a[2]; }                                          \
  extern "C" T L_product_##ID(const T *a) { return V(a).product(); }                                          \
  extern "C" T R_product_##ID(const T *a) { return a[0] * a[1] * a[2]; }                                      \
  extern "C" T L_rmin_##ID(const T *a) { return reduce_min(V(a)); }                                           \
  extern "C" T R_rmin_##ID(const T *a) { return std::min(std::min(a[0], a[1]), a[2]); }                       \
  extern "C" T L_rmax_##ID(const T *a) { return reduce_max(V(a)); }                                           \
  extern "C" T R_rmax_##ID(const T *a) { return std::max(std::max(a[0], a[1]), a[2]); }                       \
  extern "C" bool L_eq_##ID(const T *a, const T *b) { return V(a) == V(b); }                                  \
  extern "C" bool R_eq_##ID(const T *a, const T *b) { return a[0] == b[0] && a[1] == b[1] && a[2] == b[2]; }  \
  extern "C" bool L_ne_##ID(const T *a, const T *b) { return V(a) != V(b); }                                  \
  extern "C" bool R_ne_##ID(const T *a, const T *b) { return !(a[0] == b[0] && a[1] == b[1] && a[2] == b[2]); } \
  extern "C" bool L_anylt_##ID(const T *a, const T *b) { return anyLessThan(V(a), V(b)); }                    \
  extern "C" bool R_anylt_##ID(const T *a, const T *b) { return a[0] < b[0] || a[1] < b[1] || a[2] < b[2]; }  \
  extern "C" bool L_less_##ID(const T *a, const T *b) { return std::less<V>()(V(a), V(b)); }                  \
  extern "C" bool R_less_##ID(const T *a, const T *b)                                                         \
  {                                                                                                           \
    return a[0] < b[0] || (a[0] == b[0] && (a[1] < b[1] || (a[1] == b[1] && a[2] < b[2])));                   \
  }                                                                                                           \
  extern "C" void L_cross_##ID(const T *a, const T *b, T *out) { auto r = cross(V(a), V(b)); ST3(r) }         \
  extern "C" void R_cross_##ID(const T *a, const T *b, T *out)                                                \
  {                                                                                                           \
    out[0] = a[1] * b[2] - a[2] * b[1];                                                                       \
    out[1] = a[2] * b[0] - a[0] * b[2];                                                                       \
    out[2] = a[0] * b[1] - a[1] * b[0];                                                                       \
  }

#define FOLD4(T, V, ID)                                                                                                   \
  extern "C" T L_dot_##ID(const T *a, const T *b) { return dot(V(a), V(b)); }                                             \
  extern "C" T R_dot_##ID(const T *a, const T *b) { return a[0] * b[0] + a[1] * b[1] + a[2] * b[2] + a[3] * b[3]; }       \
  extern "C" T L_radd_##ID(const T *a) { return reduce_add(V(a)); }                                                       \
  extern "C" T R_radd_##ID(const T *a) { return a[0] + a[1] + a[2] + a[3]; }                                              \
  extern "C" T L_rmul_##ID(const T *a) { return reduce_mul(V(a)); }                                                       \
  extern "C" T R_rmul_##ID(const T *a) { return a[0] * a[1] * a[2] * a[3]; }                                              \
  extern "C" T L_sum_##ID(const T *a) { return V(a).sum(); }                                                              \
  extern "C" T R_sum_##ID(const T *a) { return a[0] + a[1] + a[2] + a[3]; }                                               \
  extern "C" T L_product_##ID(const T *a) { return V(a).product(); }                                                      \
  extern "C" T R_product_##ID(const T *a) { return a[0] * a[1] * a[2] * a[3]; }                                           \
  extern "C" T L_rmin_##ID(const T *a) { return reduce_min(V(a)); }                                                       \
  extern "C" T R_rmin_##ID(const T *a) { return std::min(std::min(a[0], a[1]), std::min(a[2], a[3])); }                   \
  extern "C" T L_rmax_##ID(const T *a) { return reduce_max(V(a)); }                                                       \
  extern "C" T R_rmax_##ID(const T *a) { return std::max(std::max(a[0], a[1]), std::max(a[2], a[3])); }                   \
  extern "C" bool L_eq_##ID(const T *a, const T *b) { return V(a) == V(b); }                                              \
  extern "C" bool R_eq_##ID(const T *a, const T *b) { return a[0] == b[0] && a[1] == b[1] && a[2] == b[2] && a[3] == b[3]; } \
  extern "C" bool L_ne_##ID(const T *a, const T *b) { return V(a) != V(b); }                                              \
  extern "C" bool R_ne_##ID(const T *a, const T *b) { return !(a[0] == b[0] && a[1] == b[1] && a[2] == b[2] && a[3] == b[3]); } \
  extern "C" bool L_anylt_##ID(const T *a, const T *b) { return anyLessThan(V(a), V(b)); }                                \
  extern "C" bool R_anylt_##ID(const T *a, const T *b) { return a[0] < b[0] || a[1] < b[1] || a[2] < b[2] || a[3] < b[3]; } \
  extern "C" bool L_less_##ID(const T *a, const T *b) { return std::less<V>()(V(a), V(b)); }                              \
  extern "C" bool R_less_##ID(const T *a, const T *b)                                                                     \
  {                                                                                                                       \
    return a[0] < b[0] ||                                                                                                 \
           (a[0] == b[0] && (a[1] < b[1] || (a[1] == b[1] && (a[2] < b[2] || (a[2] == b[2] && a[3] < b[3])))));           \
  }

#define TYPE(T, TN)                      \
  typedef vec_t<T, 2> V2##TN;            \
  typedef vec_t<T, 3> V3##TN;            \
  typedef vec_t<T, 3, true> V3A##TN;     \
  typedef vec_t<T, 4> V4##TN;            \
  ARITH(T, V2##TN, 2, TN##2)             \
  ARITH(T, V3##TN, 3, TN##3)             \
  ARITH(T, V3A##TN, 3, TN##3a)           \
  ARITH(T, V4##TN, 4, TN##4)             \
  FOLD2(T, V2##TN, TN##2)                \
  FOLD3(T, V3##TN, TN##3)                \
  FOLD3(T, V3A##TN, TN##3a)              \
  FOLD4(T, V4##TN, TN##4)

TYPE(int, i)
TYPE(float, f)
TYPE(long, l)
TYPE(double, d)

// integer remainder / division keep the operand order (compared as udiv/sdiv atoms)
extern "C" void L_mod_vv_i3(const int *a, const int *b, int *out) { auto r = vec3i(a) % vec3i(b); ST3(r) }
extern "C" void R_mod_vv_i3(const int *a, const int *b, int *out) { EL3(a[i] % b[i]) }
// mixed element types, conversions, composite constructors
extern "C" void L_mixed_div_vs_f3_i(const float *a, int s, float *out) { auto r = vec3f(a) / s; ST3(r) }
extern "C" void R_mixed_div_vs_f3_i(const float *a, int s, float *out) { EL3(a[i] / float(s)) }
extern "C" void L_mixed_sub_i3f3(const int *a, const float *b, float *out) { auto r = vec3i(a) - vec3f(b); ST3(r) }
extern "C" void R_mixed_sub_i3f3(const int *a, const float *b, float *out) { EL3(float(a[i]) - b[i]) }
extern "C" void L_mixed_sv_f_i4(const int *a, float s, float *out) { auto r = s - vec4i(a); ST4(r) }
extern "C" void R_mixed_sv_f_i4(const int *a, float s, float *out) { EL4(s - float(a[i])) }
extern "C" void L_convert_i4_to_f4(const int *a, float *out) { vec4f r = vec4f(vec4i(a)); ST4(r) }
extern "C" void R_convert_i4_to_f4(const int *a, float *out) { EL4(float(a[i])) }
extern "C" void L_compose_v2_z(const float *a, float z, float *out) { vec3f r = vec3f(vec2f(a), z); ST3(r) }
extern "C" void R_compose_v2_z(const float *a, float z, float *out) { out[0] = a[0]; out[1] = a[1]; out[2] = z; }
extern "C" void L_compose_v2_v2(const float *a, const float *b, float *out) { vec4f r = vec4f(vec2f(a), vec2f(b)); ST4(r) }
extern "C" void R_compose_v2_v2(const float *a, const float *b, float *out) { out[0] = a[0]; out[1] = a[1]; out[2] = b[0]; out[3] = b[1]; }
extern "C" void L_compose_v3_w(const float *a, float w, float *out) { vec4f r = vec4f(vec3f(a), w); ST4(r) }
extern "C" void R_compose_v3_w(const float *a, float w, float *out) { out[0] = a[0]; out[1] = a[1]; out[2] = a[2]; out[3] = w; }
extern "C" void L_3a_to_3(const float *a, float *out) { vec3f r = vec3fa(a); ST3(r) }
extern "C" void R_3a_to_3(const float *a, float *out) { EL3(a[i]) }
extern "C" void L_madd_f3(const float *a, const float *b, const float *c, float *out) { auto r = madd(vec3f(a), vec3f(b), vec3f(c)); ST3(r) }
extern "C" void R_madd_f3(const float *a, const float *b, const float *c, float *out) { EL3(a[i] * b[i] + c[i]) }
extern "C" void L_interp_f3(const float *f, const float *a, const float *b, const float *c, float *out)
{
  auto r = interpolate_uv(vec3f(f), vec3f(a), vec3f(b), vec3f(c));
  ST3(r)
}
extern "C" void R_interp_f3(const float *f, const float *a, const float *b, const float *c, float *out)
{
  EL3(f[0] * a[i] + f[1] * b[i] + f[2] * c[i])
}
extern "C" void L_divru_i3(const int *a, const int *b, int *out) { auto r = divRoundUp(vec3i(a), vec3i(b)); ST3(r) }
extern "C" void R_divru_i3(const int *a, const int *b, int *out) { EL3((a[i] + b[i] - 1) / b[i]) }
extern "C" unsigned long L_longprod_i3(const int *a) { return vec3i(a).long_product(); }
extern "C" unsigned long R_longprod_i3(const int *a) { return (unsigned long)(a[0]) * (unsigned long)(a[1]) * (unsigned long)(a[2]); }

// ---- padded shape, operands taken from memory as they are (whatever bytes the padding holds): the result of every
// operation on vec_t<T,3,true> must be a function of x, y, z only
#define PADDED(T, V, ID)                                                                                             \
  extern "C" T L_mem_dot_##ID(const V *a, const V *b) { return dot(*a, *b); }                                        \
  extern "C" T R_mem_dot_##ID(const V *a, const V *b) { return a->x * b->x + a->y * b->y + a->z * b->z; }            \
  extern "C" T L_mem_radd_##ID(const V *a) { return reduce_add(*a); }                                                \
  extern "C" T R_mem_radd_##ID(const V *a) { return a->x + a->y + a->z; }                                            \
  extern "C" T L_mem_rmul_##ID(const V *a) { return reduce_mul(*a); }                                                \
  extern "C" T R_mem_rmul_##ID(const V *a) { return a->x * a->y * a->z; }                                            \
  extern "C" T L_mem_rmin_##ID(const V *a) { return reduce_min(*a); }                                                \
  extern "C" T R_mem_rmin_##ID(const V *a) { return std::min(std::min(a->x, a->y), a->z); }                          \
  extern "C" T L_mem_rmax_##ID(const V *a) { return reduce_max(*a); }                                                \
  extern "C" T R_mem_rmax_##ID(const V *a) { return std::max(std::max(a->x, a->y), a->z); }                          \
  extern "C" T L_mem_sum_##ID(const V *a) { return a->sum(); }                                                       \
  extern "C" T R_mem_sum_##ID(const V *a) { return a->x + a->y + a->z; }                                             \
  extern "C" T L_mem_product_##ID(const V *a) { return a->product(); }                                               \
  extern "C" T R_mem_product_##ID(const V *a) { return a->x * a->y * a->z; }                                         \
  extern "C" bool L_mem_eq_##ID(const V *a, const V *b) { return *a == *b; }                                         \
  extern "C" bool R_mem_eq_##ID(const V *a, const V *b) { return a->x == b->x && a->y == b->y && a->z == b->z; }     \
  extern "C" bool L_mem_anylt_##ID(const V *a, const V *b) { return anyLessThan(*a, *b); }                           \
  extern "C" bool R_mem_anylt_##ID(const V *a, const V *b) { return a->x < b->x || a->y < b->y || a->z < b->z; }     \
  extern "C" bool L_mem_less_##ID(const V *a, const V *b) { return std::less<V>()(*a, *b); }                         \
  extern "C" bool R_mem_less_##ID(const V *a, const V *b)                                                            \
  {                                                                                                                  \
    return a->x < b->x || (a->x == b->x && (a->y < b->y || (a->y == b->y && a->z < b->z)));                          \
  }                                                                                                                  \
  extern "C" void L_mem_sub_##ID(const V *a, const V *b, T *out) { auto r = *a - *b; ST3(r) }                        \
  extern "C" void R_mem_sub_##ID(const V *a, const V *b, T *out) { out[0] = a->x - b->x; out[1] = a->y - b->y; out[2] = a->z - b->z; } \
  extern "C" void L_mem_min_##ID(const V *a, const V *b, T *out) { auto r = min(*a, *b); ST3(r) }                    \
  extern "C" void R_mem_min_##ID(const V *a, const V *b, T *out)                                                     \
  {                                                                                                                  \
    out[0] = std::min(a->x, b->x); out[1] = std::min(a->y, b->y); out[2] = std::min(a->z, b->z);                     \
  }                                                                                                                  \
  extern "C" void L_mem_to3_##ID(const V *a, T *out) { vec_t<T, 3> r = *a; ST3(r) }                                  \
  extern "C" void R_mem_to3_##ID(const V *a, T *out) { out[0] = a->x; out[1] = a->y; out[2] = a->z; }

PADDED(float, vec3fa, f3a)
PADDED(int, vec3ia, i3a)
typedef vec_t<double, 3, true> vec3da_;
PADDED(double, vec3da_, d3a)
extern "C" void L_mem_cross_f3a(const vec3fa *a, const vec3fa *b, float *out) { auto r = cross(*a, *b); ST3(r) }
extern "C" void R_mem_cross_f3a(const vec3fa *a, const vec3fa *b, float *out)
{
  out[0] = a->y * b->z - a->z * b->y;
  out[1] = a->z * b->x - a->x * b->z;
  out[2] = a->x * b->y - a->y * b->x;
}
// length / normalize of the padded shape go through dot(): squared length and the unnormalised direction
extern "C" float L_mem_length2_f3a(const vec3fa *a) { const float l = length(*a); return l * l; }
extern "C" float R_mem_length2_f3a(const vec3fa *a) { return a->x * a->x + a->y * a->y + a->z * a->z; }
extern "C" double L_mem_length2_d3a(const vec3da_ *a) { const double l = length(*a); return l * l; }
extern "C" double R_mem_length2_d3a(const vec3da_ *a) { return a->x * a->x + a->y * a->y + a->z * a->z; }
extern "C" void L_mem_normalize_d3a(const vec3da_ *a, double *out) { auto r = normalize(*a); ST3(r) }
extern "C" void R_mem_normalize_d3a(const vec3da_ *a, double *out)
{
  const double s = 1. / std::sqrt(a->x * a->x + a->y * a->y + a->z * a->z);
  out[0] = a->x * s; out[1] = a->y * s; out[2] = a->z * s;
}
// mixed compound assignment: the scalar takes part in its own type (common type of T and U), the result is converted
extern "C" void L_muleq_i3_f(const int *a, float s, int *out) { vec3i r(a); r *= s; ST3(r) }
extern "C" void R_muleq_i3_f(const int *a, float s, int *out) { EL3(int(float(a[i]) * s)) }
extern "C" void L_addeq_i2_d(const int *a, double s, int *out) { vec2i r(a); r += s; ST2(r) }
extern "C" void R_addeq_i2_d(const int *a, double s, int *out) { EL2(int(double(a[i]) + s)) }
extern "C" void L_diveq_f4_d(const float *a, double s, float *out) { vec4f r(a); r /= s; ST4(r) }
extern "C" void R_diveq_f4_d(const float *a, double s, float *out) { EL4(float(double(a[i]) / s)) }
extern "C" void L_subeq_i3a_f3(const int *a, const float *b, int *out) { vec3ia r(a); r -= vec3f(b); ST3(r) }
extern "C" void R_subeq_i3a_f3(const int *a, const float *b, int *out) { EL3(int(float(a[i]) - b[i])) }

// long_product: every component is widened to size_t before the product is formed (visible on the narrow unsigned types)
#define LONGPROD(T, TN)                                                                                               \
  extern "C" unsigned long L_longprod_##TN##2(const T *a) { return vec_t<T, 2>(a[0], a[1]).long_product(); }                   \
  extern "C" unsigned long R_longprod_##TN##2(const T *a) { return (unsigned long)(a[0]) * (unsigned long)(a[1]); }   \
  extern "C" unsigned long L_longprod_##TN##3(const T *a) { return vec_t<T, 3>(a[0], a[1], a[2]).long_product(); }                   \
  extern "C" unsigned long R_longprod_##TN##3(const T *a)                                                             \
  {                                                                                                                   \
    return (unsigned long)(a[0]) * (unsigned long)(a[1]) * (unsigned long)(a[2]);                                     \
  }                                                                                                                   \
  extern "C" unsigned long L_longprod_##TN##3a(const T *a) { return vec_t<T, 3, true>(a[0], a[1], a[2]).long_product(); }            \
  extern "C" unsigned long R_longprod_##TN##3a(const T *a)                                                            \
  {                                                                                                                   \
    return (unsigned long)(a[0]) * (unsigned long)(a[1]) * (unsigned long)(a[2]);                                     \
  }                                                                                                                   \
  extern "C" unsigned long L_longprod_##TN##4(const T *a) { return vec_t<T, 4>(a[0], a[1], a[2], a[3]).long_product(); }                   \
  extern "C" unsigned long R_longprod_##TN##4(const T *a)                                                             \
  {                                                                                                                   \
    return (unsigned long)(a[0]) * (unsigned long)(a[1]) * (unsigned long)(a[2]) * (unsigned long)(a[3]);             \
  }
LONGPROD(unsigned char, uc)
LONGPROD(unsigned short, us)
LONGPROD(unsigned, ui)
