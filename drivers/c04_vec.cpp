// Instantiation driver for C04 (vec_t operators). Parsed with -fsyntax-only, never linked or run.
// Every overload family of rkcommon/math/vec.h is odr-used for a handful of element types x the four
// shapes (2, 3, aligned 3, 4) so that the typed (non-dependent) AST with resolved callees exists next
// to the template patterns.  The pattern-level rules decide all element types at once; the typed
// instances cross-check them through the real overload resolution.
#include <functional>
#include <sstream>
#include "rkcommon/math/vec.h"

namespace rkverif_c04 {
  using namespace rkcommon::math;

  template <typename V>
  struct sink
  {
    static void take(const V &) {}
  };
  template <typename V>
  inline void take(const V &) {}

  // ---- members, construction, conversion, views, stream, comparisons, folds: every element type
  template <typename T, int N, bool A>
  struct members;

  template <typename V, typename S>
  void common(V a, V b, S s, const S *ptr, std::ostream &os)
  {
    V c0(ptr);
    V c1(s);
    V c2(1.5);  // const OT& constructor
    take(c0); take(c1); take(c2);
    take(a[0]);
    const V &ca = a;
    take(ca[1]);
    S *p = a;
    const S *cp = ca;
    take(p); take(cp);
    take(a.sum()); take(a.product()); take(a.long_product());
    take(-a); take(+a);
    take(a + b); take(a - b); take(a * b); take(a / b);
    take(a + s); take(a - s); take(a * s); take(a / s);
    take(s + a); take(s - a); take(s * a); take(s / a);
    a += b; a -= b; a *= b; a /= b;
    a += s; a -= s; a *= s; a /= s;
    take(a == b); take(a != b); take(anyLessThan(a, b));
    take(dot(a, b));
    take(min(a, b)); take(max(a, b));
    take(reduce_add(a)); take(reduce_mul(a)); take(reduce_min(a)); take(reduce_max(a));
    take(std::less<V>()(a, b));
    os << a;
  }

  template <typename V, typename S>
  void integral(V a, V b, S s)
  {
    take(a % b); take(a % s); take(s % a);
    a %= b; a %= s;
    take(divRoundUp(a, b));
  }

  template <typename V, typename S>
  void floating(V a, V b, S s)
  {
    take(rcp(a)); take(rcp_safe(a)); take(abs(a)); take(sin(a)); take(cos(a));
    take(length(a)); take(normalize(a)); take(safe_normalize(a));
  }

  template <typename V>
  void signedabs(V a)
  {
    take(abs(a));
  }

  template <typename V, typename W, typename S, typename U>
  void mixed(V a, W b, S s, U u)
  {
    take(a + b); take(a - b); take(a * b); take(a / b);
    take(a + u); take(a - u); take(a * u); take(a / u);
    take(s + b); take(s - b); take(s * b); take(s / b);
    a += b; a -= b; a *= b; a /= b;
    a += u; a -= u; a *= u; a /= u;
    take(V(b));                  // converting constructor
    take(static_cast<W>(a));     // explicit conversion operator
  }

  template <typename V, typename W, typename S, typename U>
  void mixed_integral(V a, W b, S s, U u)
  {
    take(a % b); take(a % u); take(s % b);
    a %= b; a %= u;
  }

#define ALL_SHAPES(FN, T)                                                                   \
  template void FN<vec_t<T, 2>, T>(vec_t<T, 2>, vec_t<T, 2>, T);                          \
  template void FN<vec_t<T, 3>, T>(vec_t<T, 3>, vec_t<T, 3>, T);                          \
  template void FN<vec_t<T, 3, true>, T>(vec_t<T, 3, true>, vec_t<T, 3, true>, T);        \
  template void FN<vec_t<T, 4>, T>(vec_t<T, 4>, vec_t<T, 4>, T);
#define ALL_SHAPES_COMMON(T)                                                                                     \
  template void common<vec_t<T, 2>, T>(vec_t<T, 2>, vec_t<T, 2>, T, const T *, std::ostream &);                \
  template void common<vec_t<T, 3>, T>(vec_t<T, 3>, vec_t<T, 3>, T, const T *, std::ostream &);                \
  template void common<vec_t<T, 3, true>, T>(vec_t<T, 3, true>, vec_t<T, 3, true>, T, const T *, std::ostream &); \
  template void common<vec_t<T, 4>, T>(vec_t<T, 4>, vec_t<T, 4>, T, const T *, std::ostream &);

  ALL_SHAPES_COMMON(int)
  ALL_SHAPES_COMMON(unsigned)
  ALL_SHAPES_COMMON(long)
  ALL_SHAPES_COMMON(float)
  ALL_SHAPES_COMMON(double)
  ALL_SHAPES(integral, int)
  ALL_SHAPES(integral, unsigned)
  ALL_SHAPES(integral, long)
  ALL_SHAPES(floating, float)
  ALL_SHAPES(floating, double)
  template void signedabs<vec2i>(vec2i);
  template void signedabs<vec3i>(vec3i);
  template void signedabs<vec_t<int, 3, true>>(vec_t<int, 3, true>);
  template void signedabs<vec4i>(vec4i);

#define ALL_SHAPES_MIXED(FN, T, U)                                                                         \
  template void FN<vec_t<T, 2>, vec_t<U, 2>, T, U>(vec_t<T, 2>, vec_t<U, 2>, T, U);                         \
  template void FN<vec_t<T, 3>, vec_t<U, 3>, T, U>(vec_t<T, 3>, vec_t<U, 3>, T, U);                         \
  template void FN<vec_t<T, 3, true>, vec_t<U, 3, true>, T, U>(vec_t<T, 3, true>, vec_t<U, 3, true>, T, U); \
  template void FN<vec_t<T, 4>, vec_t<U, 4>, T, U>(vec_t<T, 4>, vec_t<U, 4>, T, U);
  ALL_SHAPES_MIXED(mixed, int, float)
  ALL_SHAPES_MIXED(mixed, float, double)
  ALL_SHAPES_MIXED(mixed, unsigned, long)
  ALL_SHAPES_MIXED(mixed_integral, int, long)
  ALL_SHAPES_MIXED(mixed_integral, unsigned, long)

  // ---- the odd ones
  void special(vec3f a, vec3f b, vec3f c, vec3fa aa, vec3fa ab, vec3fa ac, vec2f a2, vec4f a4, vec3i i3, vec2i i2,
               vec3d d3)
  {
    take(madd(a, b, c)); take(madd(aa, ab, ac));
    take(cross(a, b)); take(cross(aa, b)); take(cross(a, ab)); take(cross(aa, ab)); take(cross(d3, d3));
    take(cross(i3, i3));
    take(dot(a, ab)); take(dot(aa, b));
    take(a == ab); take(aa != b); take(anyLessThan(a, ab));
    take(a + ab); take(aa - b); take(aa * ab);
    a += ab; aa -= b;
    take(interpolate_uv(a, a2, a2, a2)); take(interpolate_uv(a, b, b, c)); take(interpolate_uv(a, aa, ab, ac));
    take(interpolate_uv(a, a4, a4, a4));
    take(arg_max(a)); take(arg_max(a2)); take(arg_max(a4)); take(arg_max(i3));
    take(vec3f(a2, 1.f)); take(vec3fa(a2, 1.f)); take(vec4f(a2, a2)); take(vec4f(a, 1.f)); take(vec4f(aa, 1.f));
    take(vec3i(i2, 1)); take(vec3f(i2, 1.f));
    take(vec3f(aa));          // vec_t<T,3,true>::operator vec_t<T,3>() or converting constructor
    const vec3f &viaop = aa;  // implicit conversion vec_t<T,3,true> -> vec_t<T,3> (conversion function), bound to a reference
    take(viaop);
    const vec_t<int, 3> &viaop_i = vec_t<int, 3, true>(1, 2, 3);
    take(viaop_i);
    take(vec3fa(a));
    take(vec3f(1.f, 2.f, 3.f)); take(vec2f(1.f, 2.f)); take(vec4f(1.f, 2.f, 3.f, 4.f)); take(vec3fa(1.f, 2.f, 3.f));
    take(lerp(0.25f, a, b)); take(lerp(0.25f, aa, ab)); take(lerp(0.5f, i3, i3)); take(lerp(0.5f, d3, d3));
    take(lerp(0.5f, vec_t<unsigned, 2>(1u), vec_t<unsigned, 2>(2u))); take(lerp(0.5f, 1.f, 2.f));
    take(linear_to_srgba(a4)); take(cvt_uint32(a4)); take(linear_to_srgba8(a4)); take(cvt_uint32(1.f));
    take(divRoundUp(vec_t<int, 3, true>(1), vec_t<int, 3, true>(2)));
    take(min(aa, ab)); take(max(aa, ab));
  }
}  // namespace rkverif_c04
