// Identity drivers for C05 (IR cross-check). Compiled to LLVM IR, never linked or run.
// L_<id>: through rkcommon's range_t / box_t API; R_<id>: the closed-set definition written out per axis.
#include <algorithm>
#include "rkcommon/math/box.h"
#include "rkcommon/math/range.h"
using namespace rkcommon::math;

#define AND1(X) ([&] { const int i = 0; return X; }())
#define AND2(X) (AND1(X) && [&] { const int i = 1; return X; }())
#define AND3(X) (AND2(X) && [&] { const int i = 2; return X; }())
#define AND4(X) (AND3(X) && [&] { const int i = 3; return X; }())
#define OR1(X) ([&] { const int i = 0; return X; }())
#define OR2(X) (OR1(X) || [&] { const int i = 1; return X; }())
#define OR3(X) (OR2(X) || [&] { const int i = 2; return X; }())
#define OR4(X) (OR3(X) || [&] { const int i = 3; return X; }())
#define EL1(O, X) { const int i = 0; O[0] = X; }
#define EL2(O, X) EL1(O, X) { const int i = 1; O[1] = X; }
#define EL3(O, X) EL2(O, X) { const int i = 2; O[2] = X; }
#define EL4(O, X) EL3(O, X) { const int i = 3; O[3] = X; }
#define ST1(O, v) O[0] = (v);
#define ST2(O, v) O[0] = (v).x; O[1] = (v).y;
#define ST3(O, v) ST2(O, v) O[2] = (v).z;
#define ST4(O, v) ST3(O, v) O[3] = (v).w;

// B box type, P point type, N dimension, T element type
#define BOX(T, B, P, N, ID)                                                                                             \
  extern "C" bool L_contains_##ID(const T *lo, const T *hi, const T *p) { return B(P(lo), P(hi)).contains(P(p)); }      \
  extern "C" bool R_contains_##ID(const T *lo, const T *hi, const T *p) { return AND##N(lo[i] <= p[i] && p[i] <= hi[i]); } \
  extern "C" bool L_empty_##ID(const T *lo, const T *hi) { return B(P(lo), P(hi)).empty(); }                            \
  extern "C" bool R_empty_##ID(const T *lo, const T *hi) { return OR##N(hi[i] < lo[i]); }                               \
  extern "C" void L_extendp_##ID(const T *lo, const T *hi, const T *p, T *olo, T *ohi)                                  \
  {                                                                                                                     \
    B b = B(P(lo), P(hi));                                                                                                \
    b.extend(P(p));                                                                                                     \
    ST##N(olo, b.lower) ST##N(ohi, b.upper)                                                                             \
  }                                                                                                                     \
  extern "C" void R_extendp_##ID(const T *lo, const T *hi, const T *p, T *olo, T *ohi)                                  \
  {                                                                                                                     \
    EL##N(olo, std::min(lo[i], p[i])) EL##N(ohi, std::max(hi[i], p[i]))                                                 \
  }                                                                                                                     \
  extern "C" void L_extendb_##ID(const T *lo, const T *hi, const T *lo2, const T *hi2, T *olo, T *ohi)                  \
  {                                                                                                                     \
    B b = B(P(lo), P(hi));                                                                                                \
    b.extend(B(P(lo2), P(hi2)));                                                                                        \
    ST##N(olo, b.lower) ST##N(ohi, b.upper)                                                                             \
  }                                                                                                                     \
  extern "C" void R_extendb_##ID(const T *lo, const T *hi, const T *lo2, const T *hi2, T *olo, T *ohi)                  \
  {                                                                                                                     \
    EL##N(olo, std::min(lo[i], lo2[i])) EL##N(ohi, std::max(hi[i], hi2[i]))                                             \
  }                                                                                                                     \
  extern "C" void L_clamp_##ID(const T *lo, const T *hi, const T *p, T *out)                                            \
  {                                                                                                                     \
    auto r = B(P(lo), P(hi)).clamp(P(p));                                                                               \
    ST##N(out, r)                                                                                                       \
  }                                                                                                                     \
  extern "C" void R_clamp_##ID(const T *lo, const T *hi, const T *p, T *out)                                            \
  {                                                                                                                     \
    EL##N(out, std::max(lo[i], std::min(p[i], hi[i])))                                                                  \
  }                                                                                                                     \
  extern "C" void L_size_##ID(const T *lo, const T *hi, T *out) { auto r = B(P(lo), P(hi)).size(); ST##N(out, r) }      \
  extern "C" void R_size_##ID(const T *lo, const T *hi, T *out) { EL##N(out, hi[i] - lo[i]) }                           \
  extern "C" void L_translate_##ID(const T *lo, const T *hi, const T *p, T *olo, T *ohi)                                \
  {                                                                                                                     \
    auto b = B(P(lo), P(hi)) + P(p);                                                                                    \
    ST##N(olo, b.lower) ST##N(ohi, b.upper)                                                                             \
  }                                                                                                                     \
  extern "C" void R_translate_##ID(const T *lo, const T *hi, const T *p, T *olo, T *ohi)                                \
  {                                                                                                                     \
    EL##N(olo, lo[i] + p[i]) EL##N(ohi, hi[i] + p[i])                                                                   \
  }                                                                                                                     \
  extern "C" void L_scale_##ID(const T *lo, const T *hi, const T *p, T *olo, T *ohi)                                    \
  {                                                                                                                     \
    auto b = P(p) * B(P(lo), P(hi));                                                                                    \
    ST##N(olo, b.lower) ST##N(ohi, b.upper)                                                                             \
  }                                                                                                                     \
  extern "C" void R_scale_##ID(const T *lo, const T *hi, const T *p, T *olo, T *ohi)                                    \
  {                                                                                                                     \
    EL##N(olo, lo[i] * p[i]) EL##N(ohi, hi[i] * p[i])                                                                   \
  }                                                                                                                     \
  extern "C" bool L_eq_##ID(const T *lo, const T *hi, const T *lo2, const T *hi2)                                       \
  {                                                                                                                     \
    return B(P(lo), P(hi)) == B(P(lo2), P(hi2));                                                                        \
  }                                                                                                                     \
  extern "C" bool R_eq_##ID(const T *lo, const T *hi, const T *lo2, const T *hi2)                                       \
  {                                                                                                                     \
    return AND##N(lo[i] == lo2[i]) && AND##N(hi[i] == hi2[i]);                                                          \
  }

#define BOXN(T, B, P, N, ID)                                                                                            \
  extern "C" bool L_disjoint_##ID(const T *lo, const T *hi, const T *lo2, const T *hi2)                                 \
  {                                                                                                                     \
    return disjoint(B(P(lo), P(hi)), B(P(lo2), P(hi2)));                                                                \
  }                                                                                                                     \
  extern "C" bool R_disjoint_##ID(const T *lo, const T *hi, const T *lo2, const T *hi2)                                 \
  {                                                                                                                     \
    return OR##N(hi[i] < lo2[i] || hi2[i] < lo[i]);                                                                     \
  }                                                                                                                     \
  extern "C" void L_intersection_##ID(const T *lo, const T *hi, const T *lo2, const T *hi2, T *olo, T *ohi)             \
  {                                                                                                                     \
    auto b = intersectionOf(B(P(lo), P(hi)), B(P(lo2), P(hi2)));                                                        \
    ST##N(olo, b.lower) ST##N(ohi, b.upper)                                                                             \
  }                                                                                                                     \
  extern "C" void R_intersection_##ID(const T *lo, const T *hi, const T *lo2, const T *hi2, T *olo, T *ohi)             \
  {                                                                                                                     \
    EL##N(olo, std::max(lo[i], lo2[i])) EL##N(ohi, std::min(hi[i], hi2[i]))                                             \
  }

#define TOUCH(T, B, P, N, ID)                                                                                           \
  extern "C" bool L_touching_##ID(const T *lo, const T *hi, const T *lo2, const T *hi2)                                 \
  {                                                                                                                     \
    return touchingOrOverlapping(B(P(lo), P(hi)), B(P(lo2), P(hi2)));                                                   \
  }                                                                                                                     \
  extern "C" bool R_touching_##ID(const T *lo, const T *hi, const T *lo2, const T *hi2)                                 \
  {                                                                                                                     \
    return !(OR##N(hi[i] < lo2[i] || hi2[i] < lo[i]));                                                                  \
  }

static inline int P1i(const int *p) { return p[0]; }
static inline float P1f(const float *p) { return p[0]; }

BOX(int, range1i, P1i, 1, r1i)
BOX(float, range1f, P1f, 1, r1f)
BOX(int, box2i, vec2i, 2, b2i)
BOX(int, box3i, vec3i, 3, b3i)
BOX(int, box4i, vec4i, 4, b4i)
BOX(float, box2f, vec2f, 2, b2f)
BOX(float, box3f, vec3f, 3, b3f)
BOX(float, box4f, vec4f, 4, b4f)
BOX(float, box3fa, vec3fa, 3, b3fa)
BOXN(int, box2i, vec2i, 2, b2i)
BOXN(int, box3i, vec3i, 3, b3i)
BOXN(int, box4i, vec4i, 4, b4i)
BOXN(float, box3f, vec3f, 3, b3f)
BOXN(float, box3fa, vec3fa, 3, b3fa)
TOUCH(int, box2i, vec2i, 2, b2i)
TOUCH(int, box3i, vec3i, 3, b3i)
TOUCH(float, box2f, vec2f, 2, b2f)
TOUCH(float, box3f, vec3f, 3, b3f)
TOUCH(float, box3fa, vec3fa, 3, b3fa)

extern "C" int L_area_b2i(const int *lo, const int *hi) { return area(box2i(vec2i(lo), vec2i(hi))); }
extern "C" int R_area_b2i(const int *lo, const int *hi) { return (hi[0] - lo[0]) * (hi[1] - lo[1]); }
extern "C" float L_area_b2f(const float *lo, const float *hi) { return area(box2f(vec2f(lo), vec2f(hi))); }
extern "C" float R_area_b2f(const float *lo, const float *hi) { return (hi[0] - lo[0]) * (hi[1] - lo[1]); }
extern "C" float L_area_b3f(const float *lo, const float *hi) { return area(box3f(vec3f(lo), vec3f(hi))); }
extern "C" float R_area_b3f(const float *lo, const float *hi)
{
  const float x = hi[0] - lo[0], y = hi[1] - lo[1], z = hi[2] - lo[2];
  return 2.f * (x * y + x * z + y * z);
}
extern "C" float L_area_b3fa(const float *lo, const float *hi) { return area(box3fa(vec3fa(lo), vec3fa(hi))); }
extern "C" float R_area_b3fa(const float *lo, const float *hi)
{
  const float x = hi[0] - lo[0], y = hi[1] - lo[1], z = hi[2] - lo[2];
  return 2.f * (x * y + x * z + y * z);
}
extern "C" int L_volume_b3i(const int *lo, const int *hi) { return volume(box3i(vec3i(lo), vec3i(hi))); }
extern "C" int R_volume_b3i(const int *lo, const int *hi) { return (hi[0] - lo[0]) * (hi[1] - lo[1]) * (hi[2] - lo[2]); }
extern "C" float L_volume_b3f(const float *lo, const float *hi) { return volume(box3f(vec3f(lo), vec3f(hi))); }
extern "C" float R_volume_b3f(const float *lo, const float *hi) { return (hi[0] - lo[0]) * (hi[1] - lo[1]) * (hi[2] - lo[2]); }
extern "C" void L_center_b3f(const float *lo, const float *hi, float *out) { auto c = center(box3f(vec3f(lo), vec3f(hi))); ST3(out, c) }
extern "C" void R_center_b3f(const float *lo, const float *hi, float *out) { EL3(out, 0.5f * (lo[i] + hi[i])) }
extern "C" float L_center_r1f(const float *lo, const float *hi) { return range1f(lo[0], hi[0]).center(); }
extern "C" float R_center_r1f(const float *lo, const float *hi) { return 0.5f * (lo[0] + hi[0]); }
// the empty box is the identity of extend: extending it by p gives [p, p]
extern "C" void L_empty_identity_b2i(const int *p, int *olo, int *ohi)
{
  box2i b = empty;
  b.extend(vec2i(p));
  ST2(olo, b.lower) ST2(ohi, b.upper)
}
extern "C" void R_empty_identity_b2i(const int *p, int *olo, int *ohi) { EL2(olo, p[i]) EL2(ohi, p[i]) }
extern "C" bool L_default_is_empty_b3i() { return box3i().empty(); }
extern "C" bool R_default_is_empty_b3i() { return true; }
extern "C" bool L_default_is_empty_r1f() { return range1f().empty(); }
extern "C" bool R_default_is_empty_r1f() { return true; }
