// Instantiation driver for C05 (range_t / box_t / xfmBounds / intersectRayBox). Parsed, never linked or run.
#include <sstream>
#include "rkcommon/math/AffineSpace.h"
#include "rkcommon/math/box.h"
#include "rkcommon/math/range.h"

namespace rkverif_c05 {
  using namespace rkcommon::math;

  template <typename V>
  inline void take(const V &) {}

  template <typename R, typename T>
  void members(R r, R q, T t, const T *ptr, std::ostream &os)
  {
    R d;
    R e(empty);
    R z(zero);
    R o(one);
    R p(t);
    R l(t, t);
    R a(ptr);
    take(d); take(e); take(z); take(o); take(p); take(l); take(a);
    take(r.size()); take(r.center());
    r.extend(t);
    r.extend(q);
    take(r.clamp(t));
    take(r.empty()); take(r.contains(t));
    T *vp = r;
    const R &cr = r;
    const T *cvp = cr;
    take(vp); take(cvp);
    take(r * t); take(t * r); take(r + t); take(t + r);
    take(r == q); take(r != q);
    os << r;
  }

  template void members<range1f, float>(range1f, range1f, float, const float *, std::ostream &);
  template void members<range1i, int>(range1i, range1i, int, const int *, std::ostream &);
  template void members<range_t<double>, double>(range_t<double>, range_t<double>, double, const double *, std::ostream &);
  template void members<box2i, vec2i>(box2i, box2i, vec2i, const vec2i *, std::ostream &);
  template void members<box3i, vec3i>(box3i, box3i, vec3i, const vec3i *, std::ostream &);
  template void members<box4i, vec4i>(box4i, box4i, vec4i, const vec4i *, std::ostream &);
  template void members<box2f, vec2f>(box2f, box2f, vec2f, const vec2f *, std::ostream &);
  template void members<box3f, vec3f>(box3f, box3f, vec3f, const vec3f *, std::ostream &);
  template void members<box4f, vec4f>(box4f, box4f, vec4f, const vec4f *, std::ostream &);
  template void members<box3fa, vec3fa>(box3fa, box3fa, vec3fa, const vec3fa *, std::ostream &);

  void free_functions(box2i b2i, box3i b3i, box4i b4i, box2f b2f, box3f b3f, box4f b4f, box3fa b3fa, vec2f o2, vec3f o3,
                      range1f tr, affine3f xf)
  {
    take(area(b2i)); take(area(b2f)); take(area(b3i)); take(area(b3f)); take(area(b3fa));
    take(volume(b3i)); take(volume(b3f)); take(volume(b3fa));
    take(touchingOrOverlapping(b3i, b3i)); take(touchingOrOverlapping(b3f, b3f)); take(touchingOrOverlapping(b3fa, b3fa));
    take(touchingOrOverlapping(b2i, b2i)); take(touchingOrOverlapping(b2f, b2f));
    take(intersectionOf(b2i, b2i)); take(intersectionOf(b3f, b3f)); take(intersectionOf(b4i, b4i)); take(intersectionOf(b3fa, b3fa));
    take(disjoint(b2i, b2i)); take(disjoint(b3f, b3f)); take(disjoint(b4f, b4f)); take(disjoint(b3fa, b3fa));
    take(center(b2f)); take(center(b3f)); take(center(b3i)); take(center(b3fa));
    take(intersectRayBox(o3, o3, b3f)); take(intersectRayBox(o3, o3, b3f, tr));
    take(intersectRayBox(o2, o2, b2f)); take(intersectRayBox(o2, o2, b2f, tr));
    take(xfmBounds(xf, b3f));
    take(box3f(b3i));  // converting constructor
    take(range1f(range1i()));
  }
}  // namespace rkverif_c05
