// Instantiation driver for the CFG/AST rules of C06 (slerp ordering, conditioning of the quaternion-from-matrix
// branches). Parsed with -fsyntax-only, never linked or run.
#include "rkcommon/math/AffineSpace.h"
#include "rkcommon/math/LinearSpace.h"
#include "rkcommon/math/Quaternion.h"

namespace rkcommon {
  namespace math {
    template struct QuaternionT<float>;
    template struct QuaternionT<double>;
    template QuaternionT<float> slerp(const float, const QuaternionT<float> &, const QuaternionT<float> &);
    template QuaternionT<double> slerp(const float, const QuaternionT<double> &, const QuaternionT<double> &);
  }  // namespace math
}  // namespace rkcommon

namespace rkcommon {
  namespace math {
    // orthogonal(): Newton iteration for the polar factor (rule R-C06-orth)
    // (explicit instantiation of the member only: LinearSpace2::operator Scalar*() does not compile when instantiated)
    template LinearSpace2<vec_t<float, 2>> LinearSpace2<vec_t<float, 2>>::orthogonal() const;
    template LinearSpace2<vec_t<double, 2>> LinearSpace2<vec_t<double, 2>>::orthogonal() const;
  }  // namespace math
}  // namespace rkcommon

namespace rkcommon {
  namespace math {
    // frame(): orthonormal right-handed frame around a unit normal (rule R-C06-frame)
    template LinearSpace3<vec_t<float, 3>> frame(const vec_t<float, 3> &);
    template LinearSpace3<vec_t<float, 3>> frame(const vec_t<float, 3> &, const vec_t<float, 3> &);
    template LinearSpace3<vec_t<double, 3>> frame(const vec_t<double, 3> &);
    template LinearSpace3<vec_t<float, 3, true>> frame(const vec_t<float, 3, true> &);
  }  // namespace math
}  // namespace rkcommon

// self-check of R-C06-pure (expected count on the library is zero): `cached` must be reported, `table` must not
namespace rkverif_c06 {
  inline float cached_sine(float r)
  {
    static float last_r = 0.f, last_s = 0.f;   // mutable function-local static: shared between threads
    if (r != last_r) {
      last_r = r;
      last_s = r - r * r * r / 6.f;
    }
    return last_s;
  }
  inline float table_lookup(int i)
  {
    static const float table[4] = {0.f, 1.f, 0.f, -1.f};
    return table[i & 3];
  }
}  // namespace rkverif_c06

// self-check of R-C06-pole / R-C06-transl / R-C06-align (expected count on the library is zero)
namespace rkverif_c06 {
  using namespace rkcommon::math;
  inline float versine_pole(float r)                 // must be reported: 1 + cos r vanishes at r = pi
  {
    const float s = sin(r), c = cos(r);
    return s * s / (1 + c);
  }
  inline float versine_ok(float r)                   // must not be reported: 2 + cos r >= 1
  {
    const float c = cos(r);
    return (1 - c) / (2 + c);
  }
  inline vec3f xfmVector(const AffineSpace3f &m, const vec3f &v)   // must be reported: goes through the translation
  {
    return rkcommon::math::xfmPoint(m, v) - m.p;
  }
  inline vec3f xfmNormal(const AffineSpace3f &m, const vec3f &n)   // must not be reported
  {
    return rkcommon::math::xfmNormal(m.l, n);
  }
  inline float angle_unclamped(const quaternionf &q)  // must be reported: acos of a component nothing restricts
  {
    return 2.f * acos(q.r);
  }
  inline float angle_guarded(const quaternionf &q)    // must not be reported
  {
    if (q.r > 0.9995f)
      return 0.f;
    return 2.f * acos(q.r);
  }
  // R-C06-range: the reciprocal of a determinant (size s^n) overflows where adjoint / det (size 1/s) does not
  inline float det_of(const linear2f &m)
  {
    return m.vx.x * m.vy.y - m.vx.y * m.vy.x;
  }
  inline vec2f inverse_by_reciprocal(const linear2f &m, const vec2f &adjRow)   // must be reported
  {
    const float r = 1.f / det_of(m);
    return vec2f(adjRow.x * r, adjRow.y * r);
  }
  inline vec2f inverse_by_division(const linear2f &m, const vec2f &adjRow)     // must not be reported
  {
    const float d = det_of(m);
    return vec2f(adjRow.x / d, adjRow.y / d);
  }
#ifndef RKCOMMON_NO_SIMD
  inline float load_padded(const vec3fa &v)          // must be reported: vec3fa is padded, not aligned
  {
    const __m128 r = _mm_load_ps(&v.x);
    return _mm_cvtss_f32(r);
  }
  inline float load_aligned_local(const vec3fa &v)   // must not be reported
  {
    alignas(16) float f[4] = {v.x, v.y, v.z, 0.f};
    const __m128 r = _mm_load_ps(f);
    return _mm_cvtss_f32(r);
  }
#endif
}  // namespace rkverif_c06
