// Instantiation driver for C08 (IntrusivePtr / RefCountedObject). Parsed with -fsyntax-only, never linked or run.
#include "rkcommon/memory/IntrusivePtr.h"
#include "rkcommon/memory/RefCount.h"

namespace rkverif {
  struct Obj : public rkcommon::memory::RefCountedObject
  {
    int payload{0};
  };
  struct Base : public rkcommon::memory::RefCountedObject
  {
    virtual ~Base() = default;
    int b{0};
  };
  struct Derived : public Base
  {
    int d{0};
  };
}  // namespace rkverif

namespace rkcommon {
  namespace memory {
    // every member of the class template (default/copy/move/raw constructors, 3 assignments, destructor,
    // operator bool, operator*, operator->)
    template class IntrusivePtr<rkverif::Obj>;
    template class IntrusivePtr<rkverif::Base>;
    template class IntrusivePtr<rkverif::Derived>;
    // the converting constructor (member template): derived-to-base
    template IntrusivePtr<rkverif::Base>::IntrusivePtr(const IntrusivePtr<rkverif::Derived> &);
    // comparison operators
    template bool operator<(const IntrusivePtr<rkverif::Obj> &, const IntrusivePtr<rkverif::Obj> &);
    template bool operator==(const IntrusivePtr<rkverif::Obj> &, const IntrusivePtr<rkverif::Obj> &);
    template bool operator!=(const IntrusivePtr<rkverif::Obj> &, const IntrusivePtr<rkverif::Obj> &);
    template bool operator<(const IntrusivePtr<rkverif::Base> &, const IntrusivePtr<rkverif::Base> &);
    template bool operator==(const IntrusivePtr<rkverif::Base> &, const IntrusivePtr<rkverif::Base> &);
    template bool operator!=(const IntrusivePtr<rkverif::Base> &, const IntrusivePtr<rkverif::Base> &);
  }  // namespace memory
}  // namespace rkcommon

namespace rkverif {
  using rkcommon::memory::IntrusivePtr;
  using rkcommon::memory::Ref;
  // odr-uses through the backward-compatibility aliases and of the implicit default constructor
  inline void use_refs()
  {
    Ref<Obj> a;
    Ref<Obj> b(new Obj);
    IntrusivePtr<Derived> d(new Derived);
    IntrusivePtr<Base> e(d);
    a = b;
    a = static_cast<Obj *>(nullptr);
    a = static_cast<Ref<Obj> &&>(b);
    e = d;  // converting constructor + move assignment of the temporary
    // conversions selected by overload resolution, so that any converting member template the class has (today only the
    // const& converting constructor; a converting move constructor / converting assignments if they are ever added) is
    // instantiated and analysed: Derived -> Base from lvalue, rvalue and raw pointer, construction and assignment
    IntrusivePtr<Base> fromRvalue(static_cast<IntrusivePtr<Derived> &&>(d));
    IntrusivePtr<Base> fromRaw(static_cast<Derived *>(nullptr));
    e = static_cast<IntrusivePtr<Derived> &&>(d);
    e = static_cast<Derived *>(nullptr);
    const IntrusivePtr<Derived> cd(d);
    IntrusivePtr<Base> fromConst(cd);
    e = cd;
    (void)(e == fromRvalue);
    (void)(e != fromRaw);
    (void)(e < fromConst);
    (void)(a == b);
    (void)(a != b);
    (void)(a < b);
    (void)a->useCount();
    (void)(*b).payload;
    (void)static_cast<bool>(a);
  }

  // multiple inheritance with the ref-counted base at a non-zero offset
  struct Named
  {
    virtual ~Named() = default;
    int name{0};
  };
  struct NamedLeaf : public Named, public Base
  {
    int leaf{0};
  };

  // comparisons between handles of different related static types: whatever overload resolution selects for them is what
  // rules/C08.py analyses (R-C08-5: must be a handle comparison, not the built-in comparison of two operator bool() results;
  // R-C08-3: that function decides object identity on typed pointers)
  inline void mixed_compare(const IntrusivePtr<Base> &b, const IntrusivePtr<Derived> &d, const IntrusivePtr<NamedLeaf> &n)
  {
    (void)(b == d);
    (void)(d == b);
    (void)(b != d);
    (void)(d != b);
    (void)(b == n);
    (void)(n == b);
    (void)(b != n);
    (void)(n != b);
  }
}  // namespace rkverif
