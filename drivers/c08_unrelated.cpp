// Instantiation driver for C08, R-C08-5: comparisons between handles of UNRELATED pointee types. Parsed with -fsyntax-only,
// never linked or run. If the library rejects such comparisons at compile time this unit does not compile, which
// rules/C08.py accepts; if it compiles, the selected functions are analysed like every other comparison.
#include "rkcommon/memory/IntrusivePtr.h"

namespace rkverif {
  struct Apple : public rkcommon::memory::RefCountedObject
  {
    int a{0};
  };
  struct Pear : public rkcommon::memory::RefCountedObject
  {
    int p{0};
  };
  using rkcommon::memory::IntrusivePtr;
  inline void mixed_compare(const IntrusivePtr<Apple> &a, const IntrusivePtr<Pear> &p)
  {
    (void)(a == p);
    (void)(p == a);
    (void)(a != p);
    (void)(p != a);
  }
}  // namespace rkverif
