// Instantiation driver for C10 (FlatMap / ParameterizedObject). Parsed with -fsyntax-only, never linked or run.
//
// FlatMap is instantiated member by member: `template struct FlatMap<K, V>;` cannot be used, because
// `FlatMap::operator[] const` does not compile once instantiated (it calls push_back on a const vector);
// witness/c10_flatmap_const_index.cpp records that observation.
#include <string>
#include "rkcommon/containers/FlatMap.h"
#include "rkcommon/utility/ParameterizedObject.h"
// the out-of-line members (findParam, removeParam, Param::Param) are analysed in the same unit as the inline and
// template members that call them; this driver is parsed, never compiled to code or linked
#include "rkcommon/utility/ParameterizedObject.cpp"

namespace rkcommon {
  namespace containers {
#define RKVERIF_C10_FLATMAP(K, V)                                                         \
  template V &FlatMap<K, V>::at(const K &);                                               \
  template const V &FlatMap<K, V>::at(const K &) const;                                   \
  template V &FlatMap<K, V>::operator[](const K &);                                       \
  template FlatMap<K, V>::item_t &FlatMap<K, V>::at_index(size_t);                        \
  template const FlatMap<K, V>::item_t &FlatMap<K, V>::at_index(size_t) const;            \
  template size_t FlatMap<K, V>::size() const;                                            \
  template size_t FlatMap<K, V>::empty() const;                                           \
  template bool FlatMap<K, V>::contains(const K &) const;                                 \
  template void FlatMap<K, V>::erase(const K &);                                          \
  template void FlatMap<K, V>::clear();                                                   \
  template void FlatMap<K, V>::reserve(size_t);                                           \
  template FlatMap<K, V>::iterator_t FlatMap<K, V>::begin();                              \
  template FlatMap<K, V>::citerator_t FlatMap<K, V>::begin() const;                       \
  template FlatMap<K, V>::citerator_t FlatMap<K, V>::cbegin() const;                      \
  template FlatMap<K, V>::iterator_t FlatMap<K, V>::end();                                \
  template FlatMap<K, V>::citerator_t FlatMap<K, V>::end() const;                         \
  template FlatMap<K, V>::citerator_t FlatMap<K, V>::cend() const;                        \
  template FlatMap<K, V>::riterator_t FlatMap<K, V>::rbegin();                            \
  template FlatMap<K, V>::criterator_t FlatMap<K, V>::rbegin() const;                     \
  template FlatMap<K, V>::criterator_t FlatMap<K, V>::crbegin() const;                    \
  template FlatMap<K, V>::riterator_t FlatMap<K, V>::rend();                              \
  template FlatMap<K, V>::criterator_t FlatMap<K, V>::rend() const;                       \
  template FlatMap<K, V>::criterator_t FlatMap<K, V>::crend() const;

    RKVERIF_C10_FLATMAP(int, int)
    RKVERIF_C10_FLATMAP(std::string, int)
    // a key type whose operator== is not equality of the object representation (+0.0 == -0.0, NaN != NaN)
    RKVERIF_C10_FLATMAP(double, int)
#ifdef RKVERIF_C10_WIDE
    RKVERIF_C10_FLATMAP(std::string, std::string)
    RKVERIF_C10_FLATMAP(int, std::string)
#endif
  }  // namespace containers

  namespace utility {
    template void ParameterizedObject::setParam<int>(const std::string &, const int &);
    template void ParameterizedObject::setParam<float>(const std::string &, const float &);
    template void ParameterizedObject::setParam<std::string>(const std::string &, const std::string &);
    template int ParameterizedObject::getParam<int>(const std::string &, int);
    template float ParameterizedObject::getParam<float>(const std::string &, float);
    template std::string ParameterizedObject::getParam<std::string>(const std::string &, std::string);
    template void ParameterizedObject::Param::set<int>(const int &);
    template void ParameterizedObject::Param::set<std::string>(const std::string &);
  }  // namespace utility
}  // namespace rkcommon

namespace rkverif {
  // odr-use of the inline, non-template members of ParameterizedObject
  struct C10Object : public rkcommon::utility::ParameterizedObject
  {
    void use()
    {
      (void)hasParam("a");
      removeParam("a");
      resetAllParamQueryStatus();
      (void)findParam("a", true);
      (void)params_begin();
      (void)params_end();
    }
  };
}  // namespace rkverif
