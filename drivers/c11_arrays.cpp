// Instantiation driver for C11 (array wrappers). Parsed with -fsyntax-only, never linked or run.
#include <memory>
#include "rkcommon/utility/AbstractArray.h"
#include "rkcommon/utility/ArrayView.h"
#include "rkcommon/utility/DataView.h"
#include "rkcommon/utility/FixedArray.h"
#include "rkcommon/utility/FixedArrayView.h"
#include "rkcommon/utility/OwnedArray.h"

namespace rkverif {
  // element type whose size (12) differs from the size of a pointer and of size_t
  struct C11Elem12
  {
    float x, y, z;
  };
}  // namespace rkverif

namespace rkcommon {
  namespace utility {
#define RKVERIF_C11_INSTANTIATE(T)                                              \
  template struct AbstractArray<T>;                                             \
  template struct ArrayView<T>;                                                 \
  template struct OwnedArray<T>;                                                \
  template struct FixedArray<T>;                                                \
  template struct FixedArrayView<T>;                                            \
  template struct DataView<T>;                                                  \
  template ArrayView<T>::ArrayView(std::array<T, 4> &);                         \
  template ArrayView<T> &ArrayView<T>::operator=(std::array<T, 4> &);           \
  template OwnedArray<T>::OwnedArray(std::array<T, 4> &);                       \
  template OwnedArray<T> &OwnedArray<T>::operator=(std::array<T, 4> &);         \
  template FixedArray<T>::FixedArray(std::array<T, 4> &);                       \
  template FixedArray<T> &FixedArray<T>::operator=(std::array<T, 4> &);         \
  template ArrayView<T> make_ArrayView(T *, size_t);

    RKVERIF_C11_INSTANTIATE(int)
    RKVERIF_C11_INSTANTIATE(unsigned char)
    RKVERIF_C11_INSTANTIATE(rkverif::C11Elem12)
#ifdef RKVERIF_C11_WIDE
    RKVERIF_C11_INSTANTIATE(double)
    RKVERIF_C11_INSTANTIATE(short)
#endif
  }  // namespace utility
}  // namespace rkcommon

namespace rkverif {
  using namespace rkcommon::utility;

  // odr-use of the copy / move operations, so that user-provided ones (if any) get bodies and CFGs and the
  // implicitly generated ones show up in the record facts
  template <typename A>
  inline void c11_copy_move(A &a)
  {
    A b(a);
    A c(std::move(b));
    b = a;
    c = std::move(b);
  }

  inline void c11_use()
  {
    std::vector<int> v(3);
    ArrayView<int> av(v);
    OwnedArray<int> oa(v);
    FixedArray<int> fa(v);
    auto sp = std::make_shared<FixedArray<int>>(v);
    FixedArrayView<int> fv(sp, 0, 1);
    c11_copy_move(av);
    c11_copy_move(oa);
    c11_copy_move(fa);
    c11_copy_move(fv);
    std::vector<C11Elem12> w(3);
    OwnedArray<C11Elem12> ob(w);
    c11_copy_move(ob);
  }
}  // namespace rkverif
