// Instantiation driver for C12 (TransactionalBuffer / TransactionalValue). Parsed with -fsyntax-only, never linked or run.
#include "rkcommon/containers/TransactionalBuffer.h"
#include "rkcommon/utility/TransactionalValue.h"
#include <memory>
#include <string>
#include <vector>

namespace rkcommon {
  namespace containers {
    // every member, for a trivially copyable and two heap-owning payloads
    template struct TransactionalBuffer<int>;
    template struct TransactionalBuffer<std::string>;
    template struct TransactionalBuffer<std::vector<int>>;
  }  // namespace containers
}  // namespace rkcommon

namespace rkverif {
  using rkcommon::utility::TransactionalValue;

  // heap-owning payload with user-declared copy operations only: "moving" it copies and may throw
  struct C12CopyOnly
  {
    C12CopyOnly() {}
    C12CopyOnly(const C12CopyOnly &o) : text(o.text) {}
    C12CopyOnly &operator=(const C12CopyOnly &o)
    {
      text = o.text;
      return *this;
    }
    bool operator==(const C12CopyOnly &o) const
    {
      return text == o.text;
    }
    std::string text;
  };

  // TransactionalValue cannot be instantiated explicitly as a whole: its copy-assignment calls the
  // non-const ref() on a const argument and does not compile once instantiated.  Every other member is
  // odr-used here for the same three payload kinds.
  template <typename T, typename U>
  inline void c12_use_value(const U &u)
  {
    TransactionalValue<T> a;
    TransactionalValue<T> b(u);
    a = u;
    b = u;
    (void)a.update();
    (void)a.get();
    (void)a.ref();
  }

  // push_back with every value category (the overload set of today, or a single forwarding template: its instantiations
  // for a non-const lvalue, a const lvalue and an rvalue argument)
  template <typename T>
  inline void c12_use_buffer(T &lv, const T &clv)
  {
    rkcommon::containers::TransactionalBuffer<T> b;
    b.push_back(lv);
    b.push_back(clv);
    b.push_back(T(clv));
    (void)b.consume();
    (void)b.size();
    (void)b.empty();
  }

  inline void c12_use_all()
  {
    int i = 0;
    std::string str("s");
    std::vector<int> vec{1};
    c12_use_buffer<int>(i, i);
    c12_use_buffer<std::string>(str, str);
    c12_use_buffer<std::vector<int>>(vec, vec);
    c12_use_value<int>(1);
    c12_use_value<double>(1.f);
    c12_use_value<std::string>(std::string("x"));
    c12_use_value<std::string>("literal");
    c12_use_value<std::vector<int>>(std::vector<int>{1, 2});
    c12_use_value<C12CopyOnly>(C12CopyOnly());
  }
}  // namespace rkverif
