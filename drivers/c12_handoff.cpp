// Instantiation driver for C12 (TransactionalBuffer / TransactionalValue). Parsed with -fsyntax-only, never linked or run.
#include "rkcommon/containers/TransactionalBuffer.h"
#include "rkcommon/utility/TransactionalValue.h"
#include <memory>
#include <string>
#include <vector>

namespace rkcommon {
  namespace containers {
    // every member, for a trivially copyable and two heap-owning payloads
    template struct TransactionalBuffer<int>;
    template struct TransactionalBuffer<std::string>;
    template struct TransactionalBuffer<std::vector<int>>;
  }  // namespace containers
}  // namespace rkcommon

namespace rkverif {
  using rkcommon::utility::TransactionalValue;

  // TransactionalValue cannot be instantiated explicitly as a whole: its copy-assignment calls the
  // non-const ref() on a const argument and does not compile once instantiated.  Every other member is
  // odr-used here for the same three payload kinds.
  template <typename T, typename U>
  inline void c12_use_value(const U &u)
  {
    TransactionalValue<T> a;
    TransactionalValue<T> b(u);
    a = u;
    b = u;
    (void)a.update();
    (void)a.get();
    (void)a.ref();
  }

  inline void c12_use_all()
  {
    c12_use_value<int>(1);
    c12_use_value<double>(1.f);
    c12_use_value<std::string>(std::string("x"));
    c12_use_value<std::string>("literal");
    c12_use_value<std::vector<int>>(std::vector<int>{1, 2});
  }
}  // namespace rkverif
