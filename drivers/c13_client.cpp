// C13 client driver (parsed, never linked or run): a translation unit of a *user* of the library that only includes
// the public header.  R-C13-11 looks at what this unit can see of initTaskingSystem / numTaskingThreads: if they are
// declared only, the handle lives in the library; if they are inline, the state they reach must be one object per
// program, not one per translation unit.
#include "rkcommon/tasking/tasking_system_init.h"

int c13_client_query()
{
  return rkcommon::tasking::numTaskingThreads();
}

void c13_client_init(int n)
{
  rkcommon::tasking::initTaskingSystem(n);
}
