// C13 driver (parsed, never run): a client translation unit that calls parallel_for.  R-C13-14 looks at which backend
// mechanism the header-only parallel_for_impl selects under each tasking configuration *and* under compiler switches the
// client may use for its own purposes (-fopenmp): it must be the mechanism the library configures and reports.
#include "rkcommon/tasking/parallel_for.h"

void c13_parallel_client(int *out, int n)
{
  rkcommon::tasking::parallel_for(n, [&](int i) { out[i] = i; });
}
