// C13 driver (parsed, never run): instantiates the header-only users of the tasking system (AsyncLoop, AsyncTask,
// parallel_for/foreach, schedule, async) so that R-C13-6 can look at their bodies: library code must not (re-)initialise
// the tasking system behind the application.
#include "rkcommon/tasking/AsyncLoop.h"
#include "rkcommon/tasking/AsyncTask.h"
#include "rkcommon/tasking/async.h"
#include "rkcommon/tasking/parallel_for.h"
#include "rkcommon/tasking/parallel_foreach.h"
#include "rkcommon/tasking/schedule.h"

#include <vector>

void c13_users(std::vector<int> &v)
{
  using namespace rkcommon::tasking;
  int counter = 0;
  AsyncLoop a([&counter]() { ++counter; }, AsyncLoop::TASK);
  a.start();
  a.stop();
  AsyncLoop b([&counter]() { ++counter; }, AsyncLoop::THREAD);
  AsyncLoop c([&counter]() { ++counter; }, AsyncLoop::AUTO);
  AsyncTask<int> t([]() { return 1; });
  t.wait();
  auto f = async([]() { return 2; });
  (void)f.get();
  parallel_for(8, [&](int i) { v[i] = i; });
  parallel_foreach(v, [](int &x) { x += 1; });
  schedule([]() {});
}
