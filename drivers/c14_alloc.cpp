// C14 instantiation driver (parsed by the rkfacts plugin, never linked or run).
// Gives bodies/CFGs to aligned_allocator<T,A> members for several element sizes and alignments, to the typed
// alignedMalloc<T> overload and to isAligned.
#include <cstddef>
#include <cstdint>

#include "rkcommon/containers/AlignedVector.h"
#include "rkcommon/memory/malloc.h"

namespace c14 {
  struct S3
  {
    char c[3];
  };
  struct S24
  {
    double d[3];
  };
  struct alignas(64) A64
  {
    float f[16];
  };
  // larger than the default alignment and not a power of two: sizeof(T) must never be taken for an alignment
  struct S96
  {
    double d[12];
  };
  // over-aligned element type: an allocator may honour alignof(T) > A, which is still a power-of-two multiple of A
  struct alignas(128) O128
  {
    float f[32];
  };
  // trivially destructible but NOT trivially copyable: a bitwise copy is not a copy of this type
  struct SelfRef
  {
    SelfRef();
    SelfRef(const SelfRef &other);
    int *self;
    int value;
  };
}  // namespace c14

namespace rkcommon {
  namespace containers {
    template struct aligned_allocator<char>;
    template struct aligned_allocator<int>;
    template struct aligned_allocator<double>;
    template struct aligned_allocator<c14::S3>;
    template struct aligned_allocator<c14::S24>;
    template struct aligned_allocator<c14::A64>;
    template struct aligned_allocator<float, 16>;
    template struct aligned_allocator<int64_t, 128>;
    template struct aligned_allocator<c14::S24, 4096>;
    template struct aligned_allocator<c14::SelfRef>;
    template struct aligned_allocator<c14::S96>;
    template struct aligned_allocator<c14::O128>;
  }  // namespace containers
  namespace memory {
    template char *alignedMalloc<char>(size_t, size_t);
    template int *alignedMalloc<int>(size_t, size_t);
    template double *alignedMalloc<double>(size_t, size_t);
    template c14::S3 *alignedMalloc<c14::S3>(size_t, size_t);
    template c14::S24 *alignedMalloc<c14::S24>(size_t, size_t);
    template c14::A64 *alignedMalloc<c14::A64>(size_t, size_t);
  }  // namespace memory
}  // namespace rkcommon

// The hinted allocate(n, hint) is used through calls only, so that this driver compiles whether the hint overload is a
// member template, a separate overload or a defaulted parameter of the one allocate().
int *c14_hinted_int(const rkcommon::containers::aligned_allocator<int, 64> &a, const void *hint)
{
  return a.allocate(3, hint);
}

c14::S24 *c14_hinted_s24(const rkcommon::containers::aligned_allocator<c14::S24, 4096> &a, const char *hint)
{
  return a.allocate(3, hint);
}

// construct() called with a non-const lvalue and with an rvalue: whatever overloads exist (copy, forwarding, variadic) are
// instantiated for both value categories
void c14_construct_categories(const rkcommon::containers::aligned_allocator<c14::SelfRef> &a, c14::SelfRef *p, c14::SelfRef &lv)
{
  a.construct(p, lv);
  a.construct(p + 1, static_cast<c14::SelfRef &&>(lv));
}

bool c14_is_aligned(void *p)
{
  return rkcommon::memory::isAligned(p) && rkcommon::memory::isAligned(p, 16);
}

void c14_vector_use()
{
  rkcommon::containers::AlignedVector<int> v;
  v.resize(500);
  v.push_back(1);
  rkcommon::containers::AlignedVector<c14::S24> w(3);
  w.reserve(100);
}
