// Instantiation driver for C15 (stream serialization). Parsed with -fsyntax-only, never linked or run.
//
// Every function `rkverif::c15::put_<what>` / `get_<what>` contains exactly one stream-operator use; the
// rule module looks at which operator the *compiler's own overload resolution* selected for that operand
// type and derives the wire signature of the selected instantiation (R-C15-2).  The names carry no meaning
// for the analysis: a pair is formed from the operand types.
#include "rkcommon/networking/DataStreaming.h"

#include <string>
#include <vector>

namespace rkverif {
  namespace c15 {
    using namespace rkcommon;
    using namespace rkcommon::networking;

    struct Pod
    {
      int a;
      float b[3];
      unsigned char c;
    };

    // --- arithmetic types and structs ------------------------------------------------------------
    void put_int(WriteStream &s, const int &v) { s << v; }
    void get_int(ReadStream &s, int &v) { s >> v; }
    void put_double(WriteStream &s, const double &v) { s << v; }
    void get_double(ReadStream &s, double &v) { s >> v; }
    void put_u8(WriteStream &s, const uint8_t &v) { s << v; }
    void get_u8(ReadStream &s, uint8_t &v) { s >> v; }
    void put_size(WriteStream &s, const size_t &v) { s << v; }
    void get_size(ReadStream &s, size_t &v) { s >> v; }
    void put_pod(WriteStream &s, const Pod &v) { s << v; }
    void get_pod(ReadStream &s, Pod &v) { s >> v; }

    // --- strings -----------------------------------------------------------------------------------
    void put_string(WriteStream &s, const std::string &v) { s << v; }
    void get_string(ReadStream &s, std::string &v) { s >> v; }
    void put_cstr(WriteStream &s, const char *v) { s << v; }
    void put_literal(WriteStream &s) { s << "literal"; }

    // --- vectors (of POD, of strings, nested) ------------------------------------------------------
    void put_vec_int(WriteStream &s, const std::vector<int> &v) { s << v; }
    void get_vec_int(ReadStream &s, std::vector<int> &v) { s >> v; }
    void put_vec_pod(WriteStream &s, const std::vector<Pod> &v) { s << v; }
    void get_vec_pod(ReadStream &s, std::vector<Pod> &v) { s >> v; }
    void put_vec_string(WriteStream &s, const std::vector<std::string> &v) { s << v; }
    void get_vec_string(ReadStream &s, std::vector<std::string> &v) { s >> v; }
    void put_vec_vec(WriteStream &s, const std::vector<std::vector<int>> &v) { s << v; }
    void get_vec_vec(ReadStream &s, std::vector<std::vector<int>> &v) { s >> v; }
    void put_vec_vec_string(WriteStream &s, const std::vector<std::vector<std::string>> &v) { s << v; }
    void get_vec_vec_string(ReadStream &s, std::vector<std::vector<std::string>> &v) { s >> v; }

    // --- the array wrapper types, through their own static type -------------------------------------
    // (read back as a vector of the element type: length, then the elements)
    void put_abstract_u8(WriteStream &s, const utility::AbstractArray<uint8_t> &v) { s << v; }
    void put_abstract_int(WriteStream &s, const utility::AbstractArray<int> &v) { s << v; }
    void put_abstract_pod(WriteStream &s, const utility::AbstractArray<Pod> &v) { s << v; }
    void put_view_int(WriteStream &s, const utility::ArrayView<int> &v) { s << v; }
    void put_view_u8(WriteStream &s, const utility::ArrayView<uint8_t> &v) { s << v; }
    void put_owned_int(WriteStream &s, const utility::OwnedArray<int> &v) { s << v; }
    void put_owned_u8(WriteStream &s, const utility::OwnedArray<uint8_t> &v) { s << v; }
    void put_fixed_int(WriteStream &s, const utility::FixedArray<int> &v) { s << v; }
    void put_fixed_u8(WriteStream &s, const utility::FixedArray<uint8_t> &v) { s << v; }
    void put_fixedview_u8(WriteStream &s, const utility::FixedArrayView<uint8_t> &v) { s << v; }
    void get_vec_u8(ReadStream &s, std::vector<uint8_t> &v) { s >> v; }

    // --- the same values through a WriteSizeCalculator (static type of the stream is the calculator):
    // overload resolution may pick a different operator here, which must predict the same byte count
    void size_int(WriteSizeCalculator &s, const int &v) { s << v; }
    void size_double(WriteSizeCalculator &s, const double &v) { s << v; }
    void size_u8(WriteSizeCalculator &s, const uint8_t &v) { s << v; }
    void size_size(WriteSizeCalculator &s, const size_t &v) { s << v; }
    void size_pod(WriteSizeCalculator &s, const Pod &v) { s << v; }
    void size_string(WriteSizeCalculator &s, const std::string &v) { s << v; }
    void size_cstr(WriteSizeCalculator &s, const char *v) { s << v; }
    void size_literal(WriteSizeCalculator &s) { s << "literal"; }
    void size_vec_int(WriteSizeCalculator &s, const std::vector<int> &v) { s << v; }
    void size_vec_pod(WriteSizeCalculator &s, const std::vector<Pod> &v) { s << v; }
    void size_vec_string(WriteSizeCalculator &s, const std::vector<std::string> &v) { s << v; }
    void size_vec_vec(WriteSizeCalculator &s, const std::vector<std::vector<int>> &v) { s << v; }
    void size_vec_vec_string(WriteSizeCalculator &s, const std::vector<std::vector<std::string>> &v) { s << v; }
    void size_abstract_u8(WriteSizeCalculator &s, const utility::AbstractArray<uint8_t> &v) { s << v; }
    void size_abstract_int(WriteSizeCalculator &s, const utility::AbstractArray<int> &v) { s << v; }
    void size_abstract_pod(WriteSizeCalculator &s, const utility::AbstractArray<Pod> &v) { s << v; }
    void size_view_int(WriteSizeCalculator &s, const utility::ArrayView<int> &v) { s << v; }
    void size_view_u8(WriteSizeCalculator &s, const utility::ArrayView<uint8_t> &v) { s << v; }
    void size_owned_int(WriteSizeCalculator &s, const utility::OwnedArray<int> &v) { s << v; }
    void size_owned_u8(WriteSizeCalculator &s, const utility::OwnedArray<uint8_t> &v) { s << v; }
    void size_fixed_int(WriteSizeCalculator &s, const utility::FixedArray<int> &v) { s << v; }
    void size_fixed_u8(WriteSizeCalculator &s, const utility::FixedArray<uint8_t> &v) { s << v; }
    void size_fixedview_u8(WriteSizeCalculator &s, const utility::FixedArrayView<uint8_t> &v) { s << v; }
  }  // namespace c15
}  // namespace rkverif

namespace rkverif {
  namespace c15x {
    // instantiates the move operations of the array type behind BufferWriter::buffer (R-C15-6 reads their bodies)
    void move_owned(rkcommon::utility::OwnedArray<uint8_t> &a, rkcommon::utility::OwnedArray<uint8_t> &b)
    {
      rkcommon::utility::OwnedArray<uint8_t> c(std::move(a));
      b = std::move(c);
    }

    // instantiates every member of that array type that changes its storage (R-C15-8 reads their bodies)
    void sync_owned(rkcommon::utility::OwnedArray<uint8_t> &a,
                    const rkcommon::utility::OwnedArray<uint8_t> &b,
                    std::vector<uint8_t> &v,
                    uint8_t *p,
                    size_t n)
    {
      a.resize(n, 0);
      a.reset(p, n);
      a.reset();
      a = b;
      a = v;
      rkcommon::utility::OwnedArray<uint8_t> c(b);
      rkcommon::utility::OwnedArray<uint8_t> d(v);
      rkcommon::utility::OwnedArray<uint8_t> e(p, n);
      a = c;
      a = d;
      a = e;
    }
  }  // namespace c15x
}  // namespace rkverif

namespace rkcommon {
  namespace networking {
    // the only element types BufferReader::getView can be instantiated with (the buffer is a byte array)
    template std::shared_ptr<utility::ArrayView<uint8_t>> BufferReader::getView<uint8_t>(size_t);
  }  // namespace networking
}  // namespace rkcommon
