// Positive/negative examples for the zero-instance rules R-C16-6 (noexcept barrier) and R-C16-7 (parser state that
// survives an exception).  Parsed with -fsyntax-only on every run of the C16 check; never linked or run.  The rule engine must
// report `barrier` and `counted`, and must not report `guarded`, otherwise the check is ANALYSIS-BROKEN.
#include <cctype>
#include <cstddef>
#include <cstdio>
#include <cstring>
#include <stdexcept>
#include <string>

namespace rkverif_c16 {
  static void fail(const char *s)
  {
    if (!*s)
      throw std::runtime_error("x");
  }

  static void barrier(const char *s) noexcept
  {
    fail(s);
  }

  static thread_local int depth = 0;

  static int body(const char *s)
  {
    fail(s);
    return depth;
  }

  static int counted(const char *s)
  {
    if (++depth > 4) {
      depth = 0;
      throw std::runtime_error("deep");
    }
    int r = body(s);
    --depth;
    return r;
  }

  struct Guard
  {
    Guard()
    {
      ++depth;
    }
    ~Guard()
    {
      --depth;
    }
  };

  static int guarded(const char *s)
  {
    Guard g;
    return body(s);
  }

  int entry(const char *s)
  {
    barrier(s);
    return counted(s) + guarded(s);
  }

  // ---- R-C16-9: writes into self-allocated buffers
  std::string copy_off_by_one(const char *begin, const char *end)      // must be reported: terminator at small[64] when len == 64
  {
    const size_t len = end - begin;
    char small[64];
    char *mem = (len <= sizeof(small)) ? small : new char[len + 1];
    memcpy(mem, begin, len);
    mem[len] = 0;
    std::string s = mem;
    if (mem != small)
      delete[] mem;
    return s;
  }

  std::string copy_ok(const char *begin, const char *end)              // must not be reported
  {
    const size_t len = end - begin;
    char small[64];
    char *mem = (len < sizeof(small)) ? small : new char[len + 1];
    memcpy(mem, begin, len);
    mem[len] = 0;
    std::string s = mem;
    if (mem != small)
      delete[] mem;
    return s;
  }

  std::string copy_heap_short(const char *begin, const char *end)      // must be reported: no room for the terminator
  {
    char *mem = new char[end - begin];
    memcpy(mem, begin, end - begin);
    mem[end - begin] = 0;
    std::string s = mem;
    delete[] mem;
    return s;
  }
  // ---- R-C16-10: backward trim loops
  const char *trim_le_space(const char *begin, const char *end)            // must be reported: plain char is signed, bytes >= 0x80 are <= ' '
  {
    while (end > begin && end[-1] <= ' ')
      --end;
    return end;
  }

  const char *trim_isspace(const char *begin, const char *end)             // must not be reported
  {
    while (end > begin && isspace((unsigned char)end[-1]))
      --end;
    return end;
  }

  const char *trim_unsigned_le_space(const char *begin, const char *end)   // must not be reported: blanks and control bytes only
  {
    while (end > begin && (unsigned char)*(end - 1) <= ' ')
      --end;
    return end;
  }

  static bool blank(char c)
  {
    return c == ' ' || c == '\t' || c == '\n' || c == '\r';
  }

  const char *trim_helper(const char *begin, const char *end)              // must not be reported
  {
    for (; end > begin && blank(end[-1]); --end)
      ;
    return end;
  }

  const char *trim_not_graph(const char *begin, const char *end)           // must be reported: !isgraph is true for bytes >= 0x80
  {
    while (end > begin && !isgraph(end[-1]))
      --end;
    return end;
  }
  // ---- R-C16-11: token extents
  static void eat(char *&s, const char w)
  {
    if (*s != w)
      throw std::runtime_error("unexpected character");
    ++s;
  }

  std::string tok_quote_in_value(char *&s)          // must be reported: the opening quote is inside [begin, end)
  {
    char *begin = s;
    eat(s, '"');
    while (*s != '"' && *s != 0)
      ++s;
    char *end = s;
    return std::string(begin, end);
  }

  std::string tok_value(char *&s)                   // must not be reported
  {
    eat(s, '"');
    char *begin = s;
    while (*s != '"' && *s != 0)
      ++s;
    char *end = s;
    eat(s, '"');
    return std::string(begin, end);
  }

  std::string tok_begin_plus_one(char *&s)          // must not be reported
  {
    char *begin = s + 1;
    eat(s, '"');
    while (*s != '"' && *s != 0)
      ++s;
    char *end = s;
    return std::string(begin, end);
  }

  std::string tok_ident(char *&s)                   // must not be reported: the first byte passed a test that implies the scan condition
  {
    if (isalpha(*s) || *s == '_') {
      char *begin = s;
      ++s;
      while (isalnum(*s) || *s == '_')
        ++s;
      char *end = s;
      return std::string(begin, end);
    }
    return "";
  }

  std::string tok_end_behind(char *&s)              // must be reported: the closing quote is inside [begin, end)
  {
    eat(s, '"');
    char *begin = s;
    while (*s != '"' && *s != 0)
      ++s;
    eat(s, '"');
    char *end = s;
    return std::string(begin, end);
  }

  static void scanTo(char *&s, const char stop)
  {
    while (*s != stop && *s != 0)
      ++s;
  }

  std::string tok_helper_scan(char *&s)             // must not be reported: the scan loop lives in a helper
  {
    eat(s, '\'');
    char *begin = s;
    scanTo(s, '\'');
    char *end = s;
    eat(s, '\'');
    return std::string(begin, end);
  }

  // R-C16-15: length returned by snprintf used to read the buffer
  std::string fmt_unclamped(const char *name)       // must be reported: len is the untruncated length
  {
    char msg[64];
    const int len = snprintf(msg, sizeof(msg), "bad node '%s'", name);
    return std::string(msg, len > 0 ? len : 0);
  }

  std::string fmt_clamped(const char *name)         // must not be reported: len is compared with the buffer size
  {
    char msg[64];
    int len = snprintf(msg, sizeof(msg), "bad node '%s'", name);
    if (len >= (int)sizeof(msg))
      len = sizeof(msg) - 1;
    return std::string(msg, len > 0 ? len : 0);
  }

  std::string fmt_cstr(const char *name)            // must not be reported: the buffer is read as a C string
  {
    char msg[64];
    snprintf(msg, sizeof(msg), "bad node '%s'", name);
    return std::string(msg);
  }

  // R-C16-16: std::sto* on document text
  float conv_bare(const std::string &v)             // must be reported
  {
    return std::stof(v);
  }

  float conv_converted(const std::string &v)        // must not be reported: converted to std::runtime_error
  {
    try {
      return std::stof(v);
    } catch (const std::logic_error &) {
      throw std::runtime_error("not a number: " + v);
    }
  }

  int conv_rethrown(const std::string &v)           // must be reported: the handler lets the same exception out again
  {
    try {
      return std::stoi(v);
    } catch (...) {
      throw;
    }
  }

  // R-C16-18: stack memory sized by the document
  std::string stack_token(const char *begin, const char *end)   // must be reported: the token length is the allocation size
  {
    char *mem = static_cast<char *>(__builtin_alloca(end - begin + 1));
    memcpy(mem, begin, end - begin);
    mem[end - begin] = 0;
    return std::string(mem);
  }

  int stack_fixed(const char *s)                    // must not be reported: constant size
  {
    char *mem = static_cast<char *>(__builtin_alloca(16));
    mem[0]    = s[0];
    return mem[0];
  }

  // R-C16-19: terminate in place, use, restore
  void store_restored_elsewhere(char *&s, std::string &out)     // must be reported: saved from *end, written back to *s
  {
    char *begin = s;
    while (*s && *s != '<')
      ++s;
    char *end = s;
    while (end > begin && isspace((unsigned char)end[-1]))
      --end;
    const char saved = *end;
    *end             = 0;
    out              = begin;
    *s               = saved;
  }

  void store_restored_in_place(char *&s, std::string &out)      // must not be reported
  {
    char *begin = s;
    while (*s && *s != '<')
      ++s;
    char *end = s;
    while (end > begin && isspace((unsigned char)end[-1]))
      --end;
    const char saved = *end;
    *end             = 0;
    out              = begin;
    *end             = saved;
  }

  void store_other(char *&s)                        // not decided: the parser rewrites document bytes
  {
    if (*s == '\t')
      *s = ' ';
  }
}  // namespace rkverif_c16
