// Positive/negative examples for the zero-instance rules R-C16-6 (noexcept barrier) and R-C16-7 (parser state that
// survives an exception).  Parsed with -fsyntax-only on every run of the C16 check; never linked or run.  The rule engine must
// report `barrier` and `counted`, and must not report `guarded`, otherwise the check is ANALYSIS-BROKEN.
#include <stdexcept>

namespace rkverif_c16 {
  static void fail(const char *s)
  {
    if (!*s)
      throw std::runtime_error("x");
  }

  static void barrier(const char *s) noexcept
  {
    fail(s);
  }

  static thread_local int depth = 0;

  static int body(const char *s)
  {
    fail(s);
    return depth;
  }

  static int counted(const char *s)
  {
    if (++depth > 4) {
      depth = 0;
      throw std::runtime_error("deep");
    }
    int r = body(s);
    --depth;
    return r;
  }

  struct Guard
  {
    Guard()
    {
      ++depth;
    }
    ~Guard()
    {
      --depth;
    }
  };

  static int guarded(const char *s)
  {
    Guard g;
    return body(s);
  }

  int entry(const char *s)
  {
    barrier(s);
    return counted(s) + guarded(s);
  }
}  // namespace rkverif_c16
