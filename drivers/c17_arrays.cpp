// Instantiation driver for C17 (AST / CFG rules).  Parsed with -fsyntax-only, never linked or run.
#include "rkcommon/array3D/Array3D.h"
#include "rkcommon/utility/multidim_index_sequence.h"

namespace rkverif {
  struct Visit
  {
    void operator()(const rkcommon::math::vec3i &) {}
  };
  // a callable that returns a value (a visit counter): for_each ignores what the callable returns
  struct Count
  {
    int n{0};
    int operator()(const rkcommon::math::vec3i &) { return n++; }
  };
}  // namespace rkverif

namespace rkcommon {
  namespace array3D {
    template struct Array3D<float>;          // getValueRange
    template struct Array3D<unsigned char>;
    template struct ActualArray3D<float>;
    template struct ActualArray3D<unsigned char>;
    template struct IndexShiftedArray3D<float>;
    template struct Array3DAccessor<unsigned char, float>;
    template struct Array3DAccessor<int, unsigned char>;   // a wrapping (non-monotone) conversion
    template struct Array3DAccessor<float, double>;        // a widening conversion of non-integral cells
    template struct Array3D<int>;
    template struct Array3DRepeater<float>;
    template struct SubBoxArray3D<float>;
    template struct MultiSliceArray3D<float>;

    template void for_each<rkverif::Visit &>(const vec3i &, const vec3i &, rkverif::Visit &);
    template void for_each<rkverif::Count &>(const vec3i &, const vec3i &, rkverif::Count &);
    template void for_each<rkverif::Visit &>(const vec3i &, rkverif::Visit &);
    template void for_each<rkverif::Visit &>(const box3i &, rkverif::Visit &);
  }  // namespace array3D

  template struct multidim_index_sequence<2>;
  template struct multidim_index_sequence<3>;
  template struct multidim_index_iterator<2>;
  template struct multidim_index_iterator<3>;
}  // namespace rkcommon

// range-for over a sequence: uses begin / end / != / ++ / * exactly as client code does
size_t rkverif_walk(const rkcommon::index_sequence_3D &s)
{
  size_t n = 0;
  for (auto it = s.begin(); it != s.end(); ++it)
    n += (*it).x;
  return n;
}

// a caller's own callable handed over as an lvalue, template arguments deduced as in client code: every overload has to invoke
// that very object (R-C17-4, callable identity)
void rkverif_visit_lvalue(const rkcommon::math::vec3i &lo,
                          const rkcommon::math::vec3i &hi,
                          const rkcommon::math::box3i &b,
                          rkverif::Visit &v)
{
  rkcommon::array3D::for_each(lo, hi, v);
  rkcommon::array3D::for_each(hi, v);
  rkcommon::array3D::for_each(b, v);
}

// ... and a temporary callable (instantiates the loop nest for an rvalue)
void rkverif_visit_temporary(const rkcommon::math::vec3i &lo, const rkcommon::math::vec3i &hi)
{
  rkcommon::array3D::for_each(lo, hi, rkverif::Visit());
}

// 64-bit products of vec_t (used by total_indices)
template size_t rkcommon::math::vec_t<int, 3>::long_product() const;
template size_t rkcommon::math::vec_t<size_t, 3>::long_product() const;
template size_t rkcommon::math::vec_t<size_t, 2>::long_product() const;
template size_t rkcommon::math::vec_t<int, 2>::long_product() const;
