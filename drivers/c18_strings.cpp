// Instantiation driver for C18 (header-only string / argument helpers). Parsed with -fsyntax-only,
// never linked or run.  The helpers are inline non-template functions, so including the headers is
// enough to give them bodies and CFGs; the odr-uses below only document which entry points the
// rules in rules/C18.py anchor on.
#include "rkcommon/utility/StringManip.h"
#include "rkcommon/utility/ArgumentList.h"

namespace rkverif {
  struct C18Parser : public rkcommon::utility::ArgumentsParser
  {
    int tryConsume(rkcommon::utility::ArgumentList &, int) override
    {
      return 0;
    }
  };

  inline void c18_use_helpers(int ac, const char **av)
  {
    using namespace rkcommon::utility;
    (void)longestBeginningMatch("ab", "ac");
    (void)beginsWith("abc", "ab");
    (void)split("a,b", ',');
    (void)split("a,b;c", std::string(",;"));
    (void)split("a,b;c", std::string(",;"), true);
    (void)lowerCase("A");
    (void)upperCase("a");
    ArgumentList args(ac, av);
    C18Parser p;
    p.parseAndRemove(args);
    args.remove(0, 1);
    (void)args.size();
    (void)args.empty();
  }
}  // namespace rkverif
