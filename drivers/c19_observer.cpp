// Instantiation driver for C19 (Observer / Observable / TimeStamp). Parsed with -fsyntax-only, never linked or run.
#include "rkcommon/utility/Observer.h"
#include "rkcommon/utility/TimeStamp.h"

#include <type_traits>

namespace rkverif {
  using rkcommon::utility::Observable;
  using rkcommon::utility::Observer;
  using rkcommon::utility::TimeStamp;

  // compile-time facts read by rules/C19.py from the side table (constant value of each initialiser)
  namespace traits {
    constexpr bool observer_copy_constructible   = std::is_copy_constructible<Observer>::value;
    constexpr bool observer_copy_assignable      = std::is_copy_assignable<Observer>::value;
    constexpr bool observer_move_constructible   = std::is_move_constructible<Observer>::value;
    constexpr bool observer_move_assignable      = std::is_move_assignable<Observer>::value;
    constexpr bool observable_copy_constructible = std::is_copy_constructible<Observable>::value;
    constexpr bool observable_copy_assignable    = std::is_copy_assignable<Observable>::value;
    constexpr bool observable_move_constructible = std::is_move_constructible<Observable>::value;
    constexpr bool observable_move_assignable    = std::is_move_assignable<Observable>::value;
  }  // namespace traits

  // odr-use every inline member of Observer.h and the implicitly defined members of TimeStamp
  inline void use_observers()
  {
    Observable subject;
    Observer first(subject);
    Observer second(subject);
    subject.notifyObservers();
    (void)first.wasNotified();
    (void)second.wasNotified();
    TimeStamp t;
    TimeStamp u(t);
    TimeStamp v(static_cast<TimeStamp &&>(u));
    u = t;
    v = static_cast<TimeStamp &&>(t);
    v.renew();
    (void)static_cast<size_t>(v);
  }
}  // namespace rkverif
