// Instantiation driver for C20 (image writers). Parsed with -fsyntax-only, never linked or run.
//
// The format wrappers writePPM / writePGM / writePFM<float|vec3f|vec3fa|vec4f> are inline functions with
// bodies; parsing them instantiates writeImage<COMP_T, N_COMP, PIXEL_T, PIXEL_COMP, FLIP> for every
// format the library offers.  The rule module enumerates those instantiations from the facts.
#include "rkcommon/utility/SaveImage.h"

namespace rkverif {
  namespace c20 {
    // odr-use every wrapper, so that a wrapper turned into a template would still be instantiated
    void use_all(const std::string &f, int w, int h, const uint32_t *rgba, const float *gray,
        const rkcommon::math::vec3f *rgb, const rkcommon::math::vec3fa *rgbx, const rkcommon::math::vec4f *rgbaf)
    {
      rkcommon::utility::writePPM(f, w, h, rgba);
      rkcommon::utility::writePGM(f, w, h, rgba);
      rkcommon::utility::writePFM(f, w, h, gray);
      rkcommon::utility::writePFM(f, w, h, rgb);
      rkcommon::utility::writePFM(f, w, h, rgbx);
      rkcommon::utility::writePFM(f, w, h, rgbaf);
    }
  }  // namespace c20
}  // namespace rkverif
