// Instantiation driver for C09 (Optional / Any). Parsed with -fsyntax-only, never linked or run.
#include "rkcommon/utility/Optional.h"
#include "rkcommon/utility/Any.h"
#include <string>
#include <type_traits>
#include <utility>
#include <vector>

namespace rkverif {
  struct alignas(64) Over64
  {
    Over64() {}
    Over64(const Over64 &) {}
    Over64 &operator=(const Over64 &) { return *this; }
    ~Over64() {}
    bool operator==(const Over64 &) const { return true; }
    bool operator<(const Over64 &) const { return false; }
    float lanes[16];
  };

  // trivially destructible, but copying is not a byte copy: the object refers to its own member
  struct SelfRef
  {
    SelfRef() : v(0), p(&v) {}
    SelfRef(const SelfRef &o) : v(o.v), p(&v) {}
    SelfRef &operator=(const SelfRef &o) { v = o.v; return *this; }
    bool operator==(const SelfRef &o) const { return v == o.v; }
    bool operator<(const SelfRef &o) const { return v < o.v; }
    int v;
    int *p;
  };

}  // namespace rkverif

namespace rkcommon {
  namespace utility {
    // every member of the class template, for trivial / heap-owning / over-aligned payloads
    template struct Optional<int>;
    template struct Optional<double>;
    template struct Optional<std::string>;
    template struct Optional<std::vector<int>>;
    template struct Optional<rkverif::Over64>;
    template struct Optional<rkverif::SelfRef>;

    // member templates (converting constructors / assignments, emplace, value_or)
    template Optional<double>::Optional(const Optional<int> &);
    template Optional<double>::Optional(Optional<int> &&);
    template Optional<double> &Optional<double>::operator=<int>(const Optional<int> &);
    template Optional<double> &Optional<double>::operator=<int>(Optional<int> &&);
    template Optional<std::string>::Optional(const Optional<const char *> &);
    template Optional<std::string>::Optional(Optional<const char *> &&);
    template Optional<std::string> &Optional<std::string>::operator=<const char *>(const Optional<const char *> &);
    template Optional<std::string> &Optional<std::string>::operator=<const char *>(Optional<const char *> &&);
    template Optional<std::string> &Optional<std::string>::operator=(const std::string &);
    template Optional<std::string> &Optional<std::string>::operator=(const char *&&);
    template Optional<int> &Optional<int>::operator=(int &&);
    template std::string &Optional<std::string>::emplace(const char *&&);
    template int &Optional<int>::emplace(int &&);
    template std::string Optional<std::string>::value_or(const char *&&) const;
    template int Optional<int>::value_or(int &&) const;

    template bool operator==(const Optional<int> &, const Optional<double> &);
    template bool operator!=(const Optional<int> &, const Optional<double> &);
    template bool operator<(const Optional<int> &, const Optional<double> &);
    template bool operator<=(const Optional<int> &, const Optional<double> &);
    template bool operator>(const Optional<int> &, const Optional<double> &);
    template bool operator>=(const Optional<int> &, const Optional<double> &);
    template bool operator==(const Optional<std::string> &, const Optional<std::string> &);
    template bool operator<(const Optional<std::string> &, const Optional<std::string> &);
    template Optional<std::string> make_optional<std::string, const char *>(const char *&&);
  }  // namespace utility
}  // namespace rkcommon

namespace rkverif {
  using rkcommon::utility::Any;
  using rkcommon::utility::Optional;
  // odr-use every Any member for a few payloads
  inline void use_any()
  {
    Any a;
    Any b(1);
    Any c(std::string("x"));
    Any d(b);
    a = c;
    a = 2.f;
    a = std::string("y");
    (void)(a == b);
    (void)(a != b);
    (void)a.get<int>();
    const Any &ca = a;
    (void)ca.get<std::string>();
    (void)a.is<float>();
    (void)a.valid();
    (void)a.toString();
  }

  // R-C09-9: copying / assigning an Any of every value category must select the copy members, never the value templates
  inline void any_value_categories(Any &l, const Any &cl)
  {
    Any fromLvalue(l);
    Any fromConstLvalue(cl);
    Any fromRvalue(std::move(l));
    Any fromConstRvalue(static_cast<const Any &&>(cl));
    fromLvalue      = l;
    fromConstLvalue = cl;
    fromRvalue      = std::move(l);
    fromConstRvalue = static_cast<const Any &&>(cl);
  }

  // R-C09-13: constructing an Optional from an Optional of every value category must select a copy / move / converting constructor,
  // never a constructor that takes the payload (for bool payloads an Optional source converts through `explicit operator bool`)
  inline void optional_value_categories(Optional<bool> &lb, const Optional<bool> &clb, Optional<int> &li, const Optional<int> &cli)
  {
    Optional<bool> fromLvalue(lb);
    Optional<bool> fromConstLvalue(clb);
    Optional<bool> fromRvalue(std::move(lb));
    Optional<bool> convLvalue(li);
    Optional<bool> convConstLvalue(cli);
    Optional<bool> convRvalue(std::move(li));
    Optional<int> intLvalue(li);
    Optional<int> intRvalue(std::move(li));
  }

  // R-C09-15: an Optional never converts implicitly to a payload-like type (its `operator bool` is explicit): with an implicit conversion
  // the forwarding `operator=(U &&)` accepts an Optional on the right-hand side and stores bool(rhs) in the payload
  constexpr bool optional_int_converts_to_int       = std::is_convertible<Optional<int> &, int>::value;
  constexpr bool optional_string_converts_to_bool   = std::is_convertible<Optional<std::string> &, bool>::value;
  constexpr bool optional_double_converts_to_double = std::is_convertible<const Optional<double> &, double>::value;

  // R-C09-16 positive / negative example: std::move on a deduced `U &&` parameter
  template <typename U>
  inline void fwd_moves(std::string &dst, U &&v)      // must be reported
  {
    dst = std::move(v);
  }
  template <typename U>
  inline void fwd_forwards(std::string &dst, U &&v)   // must not be reported
  {
    dst = std::forward<U>(v);
  }

  // R-C09-17 positive / negative example: unconditional noexcept around a payload construction
  template <typename T>
  struct NxSlot
  {
    alignas(T) unsigned char bytes[sizeof(T)];
    bool live{false};
    bool engaged() const noexcept                     // must not be reported
    {
      return live;
    }
    void take(NxSlot &&o) noexcept                    // must be reported: T(T&&) may throw
    {
      if (o.live) {
        new (bytes) T(std::move(*reinterpret_cast<T *>(o.bytes)));
        live = true;
      }
    }
    void take_checked(NxSlot &&o) noexcept(std::is_nothrow_move_constructible<T>::value)   // must not be reported
    {
      if (o.live) {
        new (bytes) T(std::move(*reinterpret_cast<T *>(o.bytes)));
        live = true;
      }
    }
  };
  inline bool nx_slot_use(NxSlot<std::string> &a, NxSlot<std::string> &b, NxSlot<std::string> &c)
  {
    a.take(std::move(b));
    a.take_checked(std::move(c));
    std::string s;
    std::string t("x");
    fwd_moves(s, t);
    fwd_forwards(s, t);
    return a.engaged();
  }
}  // namespace rkverif
