// C01 (internal backend, enkiTS pipe): the slot item is not ordered before the slot flag.
//
// WriterTryWriteFront stores the item with ordinary stores and then stores FLAG_CAN_READ into the (volatile) slot flag;
// there is no compiler barrier between the two, so the compiler may sink (part of) the item store below the flag
// store.  Readers claim a slot by a CAS on the flag alone, so a reader that wins the CAS right after the flag store
// copies a half-written / stale item.  For the library's own item type (SubTaskSet) that is a partition of a
// parallel_for that is lost or run twice.  (The readers have the mirror-image gap between copying the item out and
// handing the slot back with FLAG_CAN_WRITE.)
//
// Build against the unmodified header and against the repaired one:
//   g++ -std=c++11 -O2 -pthread -I/repo/rkcommon/tasking/detail/enkiTS C01-pipe-item-flag-order.demo.cpp -o demo_head
//   g++ -std=c++11 -O2 -pthread -I<tree with fixes/C01-pipe-item-before-flag.diff applied>/rkcommon/tasking/detail/enkiTS \
//       C01-pipe-item-flag-order.demo.cpp -o demo_fixed
// Observed (g++ 12 -O2, x86-64): demo_head prints lines "round N: torn=... wrong=..." and "FAILED" (exit 1),
// demo_fixed prints "OK" (exit 0).  One writer (which also pops its own front) + 6 stealing readers, 16-slot pipe,
// 5 rounds of 2e6 items; every item has to be consumed exactly once and must be internally consistent
// (hi == ~lo, task derived from lo).  The scheduler's own translation unit happens to be compiled with the item stores
// first by g++ 12 -O2, so the shipped library is not affected with this compiler; nothing in the source guarantees it.
#include "LockLessMultiReadPipe.h"
#include <atomic>
#include <cstdio>
#include <cstdlib>
#include <thread>
#include <vector>

// the layout of enki::SubTaskSet (a task pointer and a [start, end) partition), built in registers by the caller:
// for this shape g++ 12 -O2 emits the store of FLAG_CAN_READ *before* the three stores of the item
// (g++ -O2 -S: "movl $286331153, flags; movl %esi, 8(item); movq %rdi, (item); movl %esi, 12(item)")
struct Item
{
  void *task;
  uint32_t lo;
  uint32_t hi;
};
static inline Item make(uint32_t i)
{
  Item it;
  it.task = (void *)(uintptr_t)(uint64_t(i) * 16u + 16u);
  it.lo   = i;
  it.hi   = ~i;
  return it;
}
typedef enki::LockLessMultiReadPipe<4, Item> SmallPipe;  // 16 slots: wraps and runs full all the time

int main(int argc, char **argv)
{
  const uint32_t N  = argc > 1 ? atoi(argv[1]) : 2000000;
  const int readers = argc > 2 ? atoi(argv[2]) : 6;
  int failures      = 0;
  for (int round = 0; round < 5; ++round) {
    static SmallPipe pipe;
    pipe.Clear();
    std::vector<std::atomic<uint32_t>> seen(N);
    for (auto &s : seen)
      s = 0;
    std::atomic<bool> done{false};
    std::atomic<uint64_t> torn{0}, consumed{0};
    auto consume = [&](const Item &it) {
      if (it.lo >= N || it.hi != ~it.lo || it.task != (void *)(uintptr_t)(uint64_t(it.lo) * 16u + 16u))
        ++torn;
      else
        ++seen[it.lo];
      ++consumed;
    };
    std::vector<std::thread> ts;
    for (int r = 0; r < readers; ++r)
      ts.emplace_back([&] {
        Item it;
        while (!done || !pipe.IsPipeEmpty())
          if (pipe.ReaderTryReadBack(&it))
            consume(it);
      });
    uint32_t rng = 12345u + round;
    for (uint32_t i = 0; i < N;) {
      if (pipe.WriterTryWriteFront(make(i)))
        ++i;
      rng = rng * 1664525u + 1013904223u;
      if ((rng >> 28) < 5) {
        Item o;
        if (pipe.WriterTryReadFront(&o))
          consume(o);
      }
    }
    {
      Item o;
      uint64_t spins = 0;
      while (consumed < N && ++spins < 2000000000ull)
        if (pipe.WriterTryReadFront(&o))
          consume(o);
    }
    done = true;
    for (auto &t : ts)
      t.join();
    uint64_t wrong = 0;
    for (auto &s : seen)
      if (s != 1)
        ++wrong;
    if (torn || wrong || consumed != N) {
      ++failures;
      std::printf("round %d: torn=%llu wrong=%llu (lost or duplicated) consumed=%llu of %u\n", round,
                  (unsigned long long)torn, (unsigned long long)wrong, (unsigned long long)consumed, N);
    }
  }
  std::printf("%s\n", failures ? "FAILED" : "OK");
  return failures != 0;
}
