// schedule() called concurrently from several threads that the scheduler did not create (internal backend)
#include <atomic>
#include <chrono>
#include <cstdio>
#include <thread>
#include <vector>
#include "rkcommon/tasking/schedule.h"
#include "rkcommon/tasking/tasking_system_init.h"
using namespace rkcommon::tasking;
int main(int argc, char **argv)
{
  const int nThreads = 4, perThread = argc > 1 ? atoi(argv[1]) : 2000;
  initTaskingSystem(4);
  static std::atomic<int> ran{0};
  std::vector<std::atomic<int>> hits(nThreads * perThread);
  for (auto &h : hits) h = 0;
  std::vector<std::thread> ts;
  for (int t = 0; t < nThreads; ++t)
    ts.emplace_back([&, t] {
      for (int i = 0; i < perThread; ++i) {
        std::atomic<int> *h = &hits[t * perThread + i];
        schedule([h] { h->fetch_add(1); ran.fetch_add(1); });
      }
    });
  for (auto &t : ts) t.join();
  auto t0 = std::chrono::steady_clock::now();
  while (ran.load() < nThreads * perThread && std::chrono::steady_clock::now() - t0 < std::chrono::seconds(5))
    std::this_thread::sleep_for(std::chrono::milliseconds(10));
  int never = 0, twice = 0;
  for (auto &h : hits) { if (h == 0) never++; if (h > 1) twice++; }
  printf("%d scheduled, %d never ran within 5 s, %d ran more than once\n", nThreads * perThread, never, twice);
  return (never || twice) ? 1 : 0;
}
