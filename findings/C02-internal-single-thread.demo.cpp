// Internal (enkiTS) backend initialised with ONE thread (initTaskingSystem(1), or a machine/container with one hardware thread):
// enkiTS counts the calling thread, so there is no worker thread at all. schedule()/async() still put the task into pipe 0
// and return; nothing ever takes it out again unless the caller later enters the scheduler (wait/parallel_for) or the
// process exits. A caller that only blocks on the future / polls a flag waits forever.
//
//   g++ -std=c++11 -O1 -g -pthread -DRKCOMMON_TASKING_INTERNAL -I<tree> -I<tree>/_build C02-internal-single-thread.demo.cpp \
//       <tree>/rkcommon/tasking/detail/TaskSys.cpp <tree>/rkcommon/tasking/detail/enkiTS/TaskScheduler.cpp -o demo && ./demo [threads=1]
//
// exit 0: both functions ran within 3 s; exit 1: they did not (threads=2 passes, threads=1 fails)
#include <atomic>
#include <chrono>
#include <cstdio>
#include <cstdlib>
#include <thread>
#include "rkcommon/tasking/async.h"
#include "rkcommon/tasking/schedule.h"
using namespace rkcommon::tasking;
int main(int argc, char **argv)
{
  const int nThreads = argc > 1 ? atoi(argv[1]) : 1;
  detail::initTaskSystemInternal(nThreads);  // what initTaskingSystem(nThreads) calls for this backend
  static std::atomic<int> ran{0};
  schedule([] { ran = 1; });
  auto fut = async([] { return 42; });
  const bool futReady = fut.wait_for(std::chrono::seconds(3)) == std::future_status::ready;
  const auto t0       = std::chrono::steady_clock::now();
  while (!ran && std::chrono::steady_clock::now() - t0 < std::chrono::seconds(1))
    std::this_thread::sleep_for(std::chrono::milliseconds(5));
  std::printf("threads=%d: schedule()d function ran: %d, async() future ready after 3 s: %d\n", nThreads, ran.load(), (int)futReady);
  const int rc = (ran && futReady) ? 0 : 1;
  std::printf(rc ? "FAIL: functions handed to schedule()/async() are not executed although the caller took no part in it being required\n"
                 : "PASS\n");
  std::fflush(stdout);
  std::_Exit(rc);  // skip static destruction (the scheduler's destructor would run the queued tasks now, at exit)
}
