#include "rkcommon/tasking/parallel_for.h"
#include <cstdio>
#include <atomic>
int main(){
  std::atomic<int> cnt{0}; int calls=0;
  rkcommon::tasking::parallel_in_blocks_of<256>((unsigned char)200,[&](unsigned char b,unsigned char e){ cnt+= (e-b); printf("f(%d,%d)\n",b,e);});
  rkcommon::tasking::parallel_in_blocks_of<40000>((short)30000,[&](short b,short e){ cnt+= (e-b); printf("f(%d,%d)\n",b,e);});
  rkcommon::tasking::parallel_in_blocks_of<64>((unsigned char)200,[&](unsigned char b,unsigned char e){ cnt+= (e-b);});
  rkcommon::tasking::parallel_in_blocks_of<7>((size_t)100,[&](size_t b,size_t e){ cnt+= (e-b);});
  printf("covered %d (want %d)\n",(int)cnt,200+30000+200+100);
}
