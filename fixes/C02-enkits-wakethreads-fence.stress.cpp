// lost wake-up stress for the internal (enkiTS) backend: schedule one detached task, do nothing else, and require it to run
#include <atomic>
#include <chrono>
#include <cstdio>
#include <cstdlib>
#include <random>
#include <thread>
#include "rkcommon/tasking/schedule.h"
#include "rkcommon/tasking/tasking_system_init.h"
using namespace rkcommon::tasking;
int main(int argc, char **argv)
{
  int iters = argc > 1 ? atoi(argv[1]) : 100000;
  initTaskingSystem(2);
  std::mt19937 rng(1);
  int lost = 0;
  for (int i = 0; i < iters; ++i) {
    std::atomic<bool> ran{false};
    std::atomic<bool> *p = &ran;
    schedule([p] { p->store(true); });
    auto t0 = std::chrono::steady_clock::now();
    while (!ran.load()) {
      if (std::chrono::steady_clock::now() - t0 > std::chrono::milliseconds(200)) {
        std::this_thread::sleep_for(std::chrono::seconds(2));
        if (ran.load()) break;   // merely late
        ++lost;
        // rescue: a second task wakes the worker, which then runs both
        static std::atomic<bool> r2{false};
        std::atomic<bool> *q = &r2;
        while (!ran.load()) { schedule([q] { q->store(true); }); std::this_thread::sleep_for(std::chrono::milliseconds(5)); }
        break;
      }
    }
    unsigned n = rng() % 120000;
    for (volatile unsigned k = 0; k < n; ++k) {}
  }
  printf("%d of %d scheduled tasks did not run within 2.2 s without further action\n", lost, iters);
  return lost ? 1 : 0;
}
