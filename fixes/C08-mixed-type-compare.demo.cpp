#include "rkcommon/memory/IntrusivePtr.h"
#include <cstdio>
using namespace rkcommon::memory;
struct A : RefCountedObject { int a = 1; };
struct B : RefCountedObject { int b = 2; };
struct D : A { int d = 3; };
int main() {
  IntrusivePtr<A> pa = new A; IntrusivePtr<B> pb = new B; IntrusivePtr<D> pd = new D; IntrusivePtr<A> pa2 = new A;
  IntrusivePtr<A> pda = pd;
  int bad = 0;
  if (pa == pb) { printf("IntrusivePtr<A> == IntrusivePtr<B> is TRUE for two different live objects\n"); bad++; }
  if (pd == pa) { printf("IntrusivePtr<D> == IntrusivePtr<A> (different objects) is TRUE\n"); bad++; }
  if (!(pd == pda)) { printf("IntrusivePtr<D> == IntrusivePtr<A> (same object) is FALSE\n"); bad++; }
  if (pa == pa2) { printf("same-type different objects TRUE\n"); bad++; }
  if (pa != pb) printf("A != B true (ok)\n"); else { printf("IntrusivePtr<A> != IntrusivePtr<B> is FALSE for two different live objects\n"); bad++; }
  pa->refDec(); pb->refDec(); pd->refDec(); pa2->refDec();
  return bad ? 1 : 0;
}
