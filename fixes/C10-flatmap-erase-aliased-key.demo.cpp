#include "rkcommon/containers/FlatMap.h"
#include <cstdio>
#include <string>
using namespace rkcommon::containers;
int main() {
  FlatMap<std::string, int> fm; fm["a"] = 1; fm[""] = 2; fm["b"] = 3;
  fm.erase(fm.begin()->first);
  printf("size after erasing the first key through a reference into the map: %zu (expected 2); contains(\"\")=%d contains(b)=%d\n", fm.size(), (int)fm.contains(""), (int)fm.contains("b"));
  return fm.size() == 2 && fm.contains("") && fm.contains("b") ? 0 : 1;
}
