#include "rkcommon/xml/XML.h"
#include <cstdio>
#include <iostream>
int main(int argc,char**argv){
  try { auto d = rkcommon::xml::readXML(argv[1]); std::cout << "children " << d.child.size() << "\n"; }
  catch (const std::runtime_error &e) { std::cout << "runtime_error: " << e.what() << "\n"; }
  return 0;
}
