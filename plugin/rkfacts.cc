// rkfacts: clang-14 frontend plugin that writes, for one translation unit, the facts the
// rkstatic rule engine needs:
//   1. clang's own JSON dump of every top-level declaration located under one of the roots
//   2. a side table with what the JSON dumper omits (resolved callee / constructor of calls,
//      member declarations by qualified name, special-member status of records, locations)
//   3. the clang::CFG of every non-dependent function / lambda body defined under the roots
//
// usage:  clang++ -fsyntax-only -fplugin=rkfacts.so -Xclang -plugin -Xclang rkfacts
//            -Xclang -plugin-arg-rkfacts -Xclang out=<file.json>
//            -Xclang -plugin-arg-rkfacts -Xclang root=/repo   (repeatable)
//            [-Xclang -plugin-arg-rkfacts -Xclang noast]       (CFG + side table only)
//
// NOTE: the action type must stay the default (ReplaceAction); any other value makes
// clang 14 return 1 silently.

#include "clang/AST/ASTConsumer.h"
#include "clang/AST/ASTContext.h"
#include "clang/AST/ASTDumperUtils.h"
#include "clang/AST/Decl.h"
#include "clang/AST/DeclCXX.h"
#include "clang/AST/DeclTemplate.h"
#include "clang/AST/ExprCXX.h"
#include "clang/AST/RecordLayout.h"
#include "clang/AST/RecursiveASTVisitor.h"
#include "clang/AST/OpenMPClause.h"
#include "clang/AST/StmtOpenMP.h"
#include "clang/Analysis/CFG.h"
#include "clang/Basic/SourceManager.h"
#include "clang/Frontend/CompilerInstance.h"
#include "clang/Frontend/FrontendPluginRegistry.h"
#include "llvm/Support/FileSystem.h"
#include "llvm/Support/raw_ostream.h"

#include <map>
#include <set>
#include <string>
#include <vector>

using namespace clang;

namespace {

static std::string hexid(const void *p)
{
  char buf[32];
  snprintf(buf, sizeof buf, "0x%llx", (unsigned long long)(uintptr_t)p);
  return buf;
}

static std::string jstr(llvm::StringRef s)
{
  std::string o = "\"";
  for (unsigned char c : s) {
    switch (c) {
    case '"': o += "\\\""; break;
    case '\\': o += "\\\\"; break;
    case '\n': o += "\\n"; break;
    case '\t': o += "\\t"; break;
    case '\r': o += "\\r"; break;
    default:
      if (c < 0x20) {
        char b[8];
        snprintf(b, sizeof b, "\\u%04x", c);
        o += b;
      } else
        o += (char)c;
    }
  }
  o += "\"";
  return o;
}

struct Opts
{
  std::string out;
  std::vector<std::string> roots;
  bool noast = false;
};

class Facts : public RecursiveASTVisitor<Facts>
{
 public:
  Facts(ASTContext &C, const Opts &O, llvm::raw_ostream &OS) : Ctx(C), O(O), OS(OS) {}

  bool shouldVisitTemplateInstantiations() const { return true; }
  bool shouldVisitImplicitCode() const { return true; }

  ASTContext &Ctx;
  const Opts &O;
  llvm::raw_ostream &OS;
  std::vector<std::string> files;
  std::map<std::string, int> fileIdx;
  std::set<const FunctionDecl *> doneFns;
  bool firstSide = true, firstCfg = true, firstRec = true;
  std::string sideBuf, cfgBuf, recBuf, fnBuf;

  std::string fileOf(SourceLocation L)
  {
    if (L.isInvalid())
      return "";
    const SourceManager &SM = Ctx.getSourceManager();
    SourceLocation E = SM.getExpansionLoc(L);
    PresumedLoc P = SM.getPresumedLoc(E, false);
    if (P.isInvalid())
      return "";
    return P.getFilename();
  }
  unsigned lineOf(SourceLocation L)
  {
    if (L.isInvalid())
      return 0;
    const SourceManager &SM = Ctx.getSourceManager();
    return SM.getExpansionLineNumber(L);
  }
  bool inRoots(SourceLocation L)
  {
    std::string f = fileOf(L);
    if (f.empty())
      return false;
    for (auto &r : O.roots)
      if (f.compare(0, r.size(), r) == 0)
        return true;
    return false;
  }
  int fidx(const std::string &f)
  {
    auto it = fileIdx.find(f);
    if (it != fileIdx.end())
      return it->second;
    int i = files.size();
    files.push_back(f);
    fileIdx[f] = i;
    return i;
  }

  static std::string qname(const NamedDecl *D)
  {
    if (!D)
      return "";
    std::string s;
    llvm::raw_string_ostream os(s);
    D->printQualifiedName(os);
    return os.str();
  }

  std::string typeStr(QualType T)
  {
    if (T.isNull())
      return "";
    return T.getAsString(Ctx.getPrintingPolicy());
  }
  std::string canonStr(QualType T)
  {
    if (T.isNull())
      return "";
    return T.getCanonicalType().getAsString(Ctx.getPrintingPolicy());
  }

  // ---------------------------------------------------------------- side table (per Stmt)
  void side(const Stmt *S, const std::string &body)
  {
    if (!sideBuf.empty())
      sideBuf += ",\n";
    sideBuf += jstr(hexid(S)) + ":{" + body + "}";
  }

  std::string declRef(const NamedDecl *D)
  {
    std::string s = "\"d\":" + jstr(hexid(D)) + ",\"q\":" + jstr(qname(D));
    if (auto *M = dyn_cast<CXXMethodDecl>(D)) {
      s += ",\"rec\":" + jstr(qname(M->getParent()));
      if (M->isVirtual())
        s += ",\"virt\":true";
    }
    if (auto *F = dyn_cast<FunctionDecl>(D)) {
      if (const FunctionDecl *P = F->getTemplateInstantiationPattern())
        s += ",\"pat\":" + jstr(hexid(P));
      if (const FunctionDecl *Def = F->getDefinition())
        if (Def != F)
          s += ",\"def\":" + jstr(hexid(Def));
      s += ",\"fty\":" + jstr(typeStr(F->getType()));
    }
    if (auto *Fd = dyn_cast<FieldDecl>(D)) {
      s += ",\"rec\":" + jstr(qname(Fd->getParent()));
      s += ",\"fi\":" + std::to_string(Fd->getFieldIndex());
    }
    return s;
  }

  bool VisitStmt(Stmt *S)
  {
    if (!curInRoots)
      return true;
    std::string b;
    SourceLocation L = S->getBeginLoc();
    std::string f = fileOf(L);
    if (!f.empty())
      b = "\"f\":" + std::to_string(fidx(f)) + ",\"l\":" + std::to_string(lineOf(L));
    auto add = [&](const std::string &x) {
      if (!b.empty())
        b += ",";
      b += x;
    };
    if (auto *CE = dyn_cast<CXXConstructExpr>(S)) {
      add(declRef(CE->getConstructor()));
      add(std::string("\"k\":\"ctor\""));
      add("\"cty\":" + jstr(canonStr(CE->getType())));
    } else if (auto *Call = dyn_cast<CallExpr>(S)) {
      if (const FunctionDecl *FD = Call->getDirectCallee()) {
        add(declRef(FD));
        add(std::string("\"k\":\"call\""));
      }
    } else if (auto *ME = dyn_cast<MemberExpr>(S)) {
      add(declRef(ME->getMemberDecl()));
      add(std::string("\"k\":\"member\""));
    } else if (auto *DR = dyn_cast<DeclRefExpr>(S)) {
      add("\"d\":" + jstr(hexid(DR->getDecl())) + ",\"q\":" + jstr(qname(DR->getDecl())));
      add(std::string("\"k\":\"ref\""));
    } else if (auto *NE = dyn_cast<CXXNewExpr>(S)) {
      if (NE->getOperatorNew())
        add("\"q\":" + jstr(qname(NE->getOperatorNew())));
      add("\"aty\":" + jstr(canonStr(NE->getAllocatedType())));
      add("\"nplace\":" + std::to_string(NE->getNumPlacementArgs()));
      {
        std::string pa = "\"pargs\":[";
        for (unsigned i = 0; i < NE->getNumPlacementArgs(); ++i)
          pa += (i ? "," : "") + jstr(hexid(NE->getPlacementArg(i)));
        add(pa + "]");
        if (NE->getInitializer())
          add("\"init\":" + jstr(hexid(NE->getInitializer())));
      }
      add(std::string("\"k\":\"new\""));
    } else if (auto *DE = dyn_cast<CXXDeleteExpr>(S)) {
      add("\"dty\":" + jstr(canonStr(DE->getDestroyedType())));
      add(std::string("\"k\":\"delete\""));
    } else if (auto *TE = dyn_cast<CXXThrowExpr>(S)) {
      if (TE->getSubExpr())
        add("\"tty\":" + jstr(canonStr(TE->getSubExpr()->getType())));
      add(std::string("\"k\":\"throw\""));
    } else if (auto *LE = dyn_cast<LambdaExpr>(S)) {
      add("\"op\":" + jstr(hexid(LE->getCallOperator())));
      add("\"cls\":" + jstr(hexid(LE->getLambdaClass())));
      add(std::string("\"k\":\"lambda\""));
    } else if (auto *OD = dyn_cast<OMPExecutableDirective>(S)) {
      std::string cl = "\"clauses\":[";
      bool firstc = true;
      for (const OMPClause *C : OD->clauses()) {
        if (!C)
          continue;
        cl += (firstc ? "" : ",") + jstr(llvm::omp::getOpenMPClauseName(C->getClauseKind()));
        firstc = false;
      }
      add(cl + "]");
      add("\"directive\":" + jstr(llvm::omp::getOpenMPDirectiveName(OD->getDirectiveKind())));
      add(std::string("\"k\":\"omp\""));
    } else if (auto *BT = dyn_cast<CXXBindTemporaryExpr>(S)) {
      add("\"dtor\":" + jstr(qname(BT->getTemporary()->getDestructor())));
      add(std::string("\"k\":\"bindtemp\""));
    }
    if (auto *E = dyn_cast<Expr>(S)) {
      if (!E->getType().isNull())
        add("\"ct\":" + jstr(canonStr(E->getType())));
      // compile-time constant value of integral expressions
      if (!E->getType().isNull() && !E->isValueDependent() && !E->isTypeDependent()
          && !E->containsErrors() && !E->getType()->isDependentType()
          && E->getType()->isIntegralOrEnumerationType()) {
        Expr::EvalResult R;
        if (E->EvaluateAsInt(R, Ctx, Expr::SE_NoSideEffects)) {
          llvm::SmallString<32> vs;
          R.Val.getInt().toString(vs, 10);
          add("\"cv\":" + jstr(vs.str()));
        }
      }
    }
    side(S, b);
    return true;
  }

  // ---------------------------------------------------------------- records
  bool VisitCXXRecordDecl(CXXRecordDecl *RD)
  {
    if (!RD->isThisDeclarationADefinition() || !RD->isCompleteDefinition())
      return true;
    if (!inRoots(RD->getLocation()))
      return true;
    if (RD->isDependentType() || RD->isInvalidDecl())
      return true;
    std::string s = "{\"id\":" + jstr(hexid(RD)) + ",\"q\":" + jstr(qname(RD));
    s += ",\"type\":" + jstr(canonStr(Ctx.getRecordType(RD)));
    s += ",\"lambda\":" + std::string(RD->isLambda() ? "true" : "false");
    if (!RD->isLambda()) {
      const ASTRecordLayout &LY = Ctx.getASTRecordLayout(RD);
      s += ",\"size\":" + std::to_string(LY.getSize().getQuantity());
      s += ",\"align\":" + std::to_string(LY.getAlignment().getQuantity());
      s += ",\"fields\":[";
      bool first = true;
      for (auto *F : RD->fields()) {
        if (!first)
          s += ",";
        first = false;
        s += "{\"id\":" + jstr(hexid(F)) + ",\"name\":" + jstr(F->getNameAsString()) + ",\"type\":"
            + jstr(typeStr(F->getType())) + ",\"ct\":" + jstr(canonStr(F->getType()))
            + ",\"off\":" + std::to_string(LY.getFieldOffset(F->getFieldIndex()) / 8)
            + ",\"talign\":" + std::to_string(Ctx.getTypeAlignInChars(F->getType()).getQuantity())
            + ",\"hasinit\":" + (F->hasInClassInitializer() ? "true" : "false") + "}";
      }
      s += "]";
    }
    if (auto *SD = dyn_cast<ClassTemplateSpecializationDecl>(RD)) {
      s += ",\"tmpl\":" + jstr(qname(SD->getSpecializedTemplate()));
      s += ",\"targs\":[";
      const TemplateArgumentList &TA = SD->getTemplateArgs();
      for (unsigned i = 0; i < TA.size(); ++i) {
        if (i)
          s += ",";
        const TemplateArgument &A = TA.get(i);
        if (A.getKind() == TemplateArgument::Type && !A.getAsType()->isDependentType()) {
          QualType T = A.getAsType();
          s += "{\"t\":" + jstr(canonStr(T));
          if (!T->isIncompleteType() && !T->isFunctionType() && !T->isVoidType()) {
            s += ",\"size\":" + std::to_string(Ctx.getTypeSizeInChars(T).getQuantity());
            s += ",\"align\":" + std::to_string(Ctx.getTypeAlignInChars(T).getQuantity());
            s += std::string(",\"trivial_dtor\":") + (T.isDestructedType() == QualType::DK_none ? "true" : "false");
            s += std::string(",\"trivially_copyable\":") + (T.isTriviallyCopyableType(Ctx) ? "true" : "false");
          }
          s += "}";
        } else if (A.getKind() == TemplateArgument::Integral) {
          llvm::SmallString<32> vs;
          A.getAsIntegral().toString(vs, 10);
          s += "{\"v\":" + jstr(vs.str()) + "}";
        } else {
          s += "{}";
        }
      }
      s += "]";
    }
    s += ",\"bases\":[";
    {
      bool first = true;
      for (auto &B : RD->bases()) {
        if (!first)
          s += ",";
        first = false;
        s += jstr(canonStr(B.getType()));
      }
    }
    s += "]";
    auto sm = [&](const char *name, bool has, bool userDecl, bool deleted, bool simple) {
      s += std::string(",\"") + name + "\":{\"has\":" + (has ? "true" : "false") + ",\"user\":"
          + (userDecl ? "true" : "false") + ",\"deleted\":" + (deleted ? "true" : "false")
          + ",\"simple\":" + (simple ? "true" : "false") + "}";
    };
    bool ccDel = false, mcDel = false, caDel = false, maDel = false;
    bool ccUser = false, mcUser = false, caUser = false, maUser = false, dtUser = false;
    for (auto *M : RD->methods()) {
      if (auto *C = dyn_cast<CXXConstructorDecl>(M)) {
        if (C->isCopyConstructor()) {
          ccDel |= C->isDeleted();
          ccUser |= C->isUserProvided();
        }
        if (C->isMoveConstructor()) {
          mcDel |= C->isDeleted();
          mcUser |= C->isUserProvided();
        }
      } else if (isa<CXXDestructorDecl>(M)) {
        dtUser |= M->isUserProvided();
      } else {
        if (M->isCopyAssignmentOperator()) {
          caDel |= M->isDeleted();
          caUser |= M->isUserProvided();
        }
        if (M->isMoveAssignmentOperator()) {
          maDel |= M->isDeleted();
          maUser |= M->isUserProvided();
        }
      }
    }
    sm("copy_ctor", RD->hasSimpleCopyConstructor() || RD->hasUserDeclaredCopyConstructor() || RD->needsImplicitCopyConstructor(),
       ccUser, ccDel || (RD->needsImplicitCopyConstructor() && RD->defaultedCopyConstructorIsDeleted()), RD->hasSimpleCopyConstructor());
    sm("move_ctor", RD->hasMoveConstructor(), mcUser, mcDel, RD->hasSimpleMoveConstructor());
    sm("copy_assign", RD->hasSimpleCopyAssignment() || RD->hasUserDeclaredCopyAssignment() || RD->needsImplicitCopyAssignment(), caUser, caDel, RD->hasSimpleCopyAssignment());
    sm("move_assign", RD->hasMoveAssignment(), maUser, maDel, RD->hasSimpleMoveAssignment());
    sm("dtor", true, dtUser, false, RD->hasSimpleDestructor());
    s += ",\"trivial_dtor\":" + std::string(RD->hasTrivialDestructor() ? "true" : "false");
    s += "}";
    if (!recBuf.empty())
      recBuf += ",\n";
    recBuf += s;
    return true;
  }

  // ---------------------------------------------------------------- CFGs
  bool curInRoots = false;

  bool TraverseDecl(Decl *D)
  {
    if (!D)
      return true;
    bool saved = curInRoots;
    if (isa<FunctionDecl>(D) || isa<VarDecl>(D) || isa<FieldDecl>(D) || isa<CXXRecordDecl>(D)
        || isa<NamespaceDecl>(D))
      curInRoots = inRoots(D->getLocation());
    bool r = RecursiveASTVisitor<Facts>::TraverseDecl(D);
    curInRoots = saved;
    return r;
  }

  bool VisitFunctionDecl(FunctionDecl *FD)
  {
    emitFn(FD);
    return true;
  }
  bool VisitLambdaExpr(LambdaExpr *LE)
  {
    if (LE->getCallOperator())
      emitFn(LE->getCallOperator());
    return true;
  }

  void emitFn(FunctionDecl *FD)
  {
    if (!FD->doesThisDeclarationHaveABody())
      return;
    if (!inRoots(FD->getLocation()))
      return;
    if (doneFns.count(FD))
      return;
    doneFns.insert(FD);
    bool dependent = FD->isDependentContext();
    // function table entry (all functions with bodies, dependent or not)
    {
      std::string s = "{\"id\":" + jstr(hexid(FD)) + ",\"q\":" + jstr(qname(FD));
      s += ",\"f\":" + std::to_string(fidx(fileOf(FD->getLocation())))
          + ",\"l\":" + std::to_string(lineOf(FD->getLocation()));
      s += ",\"dep\":" + std::string(dependent ? "true" : "false");
      s += ",\"fty\":" + jstr(typeStr(FD->getType()));
      if (auto *M = dyn_cast<CXXMethodDecl>(FD)) {
        s += ",\"rec\":" + jstr(qname(M->getParent()));
        s += ",\"recid\":" + jstr(hexid(M->getParent()));
        if (!M->getParent()->isDependentType())
          s += ",\"rect\":" + jstr(canonStr(Ctx.getRecordType(M->getParent())));
        s += ",\"const\":" + std::string(M->isConst() ? "true" : "false");
        s += std::string(",\"access\":\"") + (M->getAccess() == AS_public ? "public" : M->getAccess() == AS_protected ? "protected" : M->getAccess() == AS_private ? "private" : "none") + "\"";
        s += ",\"implicit\":" + std::string(M->isImplicit() ? "true" : "false");
        s += ",\"defaulted\":" + std::string(M->isDefaulted() ? "true" : "false");
        s += ",\"virt\":" + std::string(M->isVirtual() ? "true" : "false");
        s += ",\"static\":" + std::string(M->isStatic() ? "true" : "false");
        if (M->isVirtual()) {
          s += ",\"overrides\":[";
          bool first = true;
          for (auto *OM : M->overridden_methods()) {
            if (!first)
              s += ",";
            first = false;
            s += jstr(qname(OM));
          }
          s += "]";
        }
        if (auto *C = dyn_cast<CXXConstructorDecl>(M)) {
          s += std::string(",\"ctor\":\"")
              + (C->isCopyConstructor() ? "copy" : C->isMoveConstructor() ? "move" : C->isDefaultConstructor() ? "default" : "other")
              + "\"";
        }
        if (isa<CXXDestructorDecl>(M))
          s += ",\"dtor\":true";
        if (M->isCopyAssignmentOperator())
          s += ",\"assign\":\"copy\"";
        if (M->isMoveAssignmentOperator())
          s += ",\"assign\":\"move\"";
      }
      if (const FunctionDecl *P = FD->getTemplateInstantiationPattern())
        s += ",\"pat\":" + jstr(hexid(P));
      if (const auto *TA = FD->getTemplateSpecializationArgs()) {
        s += ",\"targs\":[";
        for (unsigned i = 0; i < TA->size(); ++i) {
          if (i)
            s += ",";
          std::string a;
          llvm::raw_string_ostream os(a);
          TA->get(i).print(Ctx.getPrintingPolicy(), os, true);
          s += jstr(os.str());
        }
        s += "]";
      }
      s += ",\"params\":[";
      for (unsigned i = 0; i < FD->getNumParams(); ++i) {
        if (i)
          s += ",";
        s += "{\"id\":" + jstr(hexid(FD->getParamDecl(i))) + ",\"name\":"
            + jstr(FD->getParamDecl(i)->getNameAsString()) + ",\"ct\":"
            + jstr(canonStr(FD->getParamDecl(i)->getType())) + "}";
      }
      s += "]";
      s += ",\"body\":" + jstr(hexid(FD->getBody()));
      s += "}";
      if (!fnBuf.empty())
        fnBuf += ",\n";
      fnBuf += s;
    }
    if (dependent)
      return;
    if (FD->isInvalidDecl())
      return;

    CFG::BuildOptions BO;
    BO.setAllAlwaysAdd();
    BO.AddImplicitDtors = true;
    BO.AddTemporaryDtors = true;
    BO.AddInitializers = true;
    BO.AddEHEdges = false;
    BO.AddCXXDefaultInitExprInCtors = true;
    BO.PruneTriviallyFalseEdges = true;
    std::unique_ptr<CFG> G = CFG::buildCFG(FD, FD->getBody(), &Ctx, BO);
    if (!G)
      return;
    std::string s = "{\"fn\":" + jstr(hexid(FD)) + ",\"entry\":"
        + std::to_string(G->getEntry().getBlockID()) + ",\"exit\":"
        + std::to_string(G->getExit().getBlockID()) + ",\"blocks\":[";
    bool firstB = true;
    for (const CFGBlock *B : *G) {
      if (!firstB)
        s += ",";
      firstB = false;
      s += "{\"id\":" + std::to_string(B->getBlockID()) + ",\"el\":[";
      bool firstE = true;
      for (const CFGElement &E : *B) {
        std::string e;
        switch (E.getKind()) {
        case CFGElement::Statement:
        case CFGElement::Constructor:
        case CFGElement::CXXRecordTypedCall:
          e = "[\"S\"," + jstr(hexid(E.castAs<CFGStmt>().getStmt())) + "]";
          break;
        case CFGElement::Initializer: {
          const CXXCtorInitializer *I = E.castAs<CFGInitializer>().getInitializer();
          e = "[\"I\"," + jstr(hexid(I->getInit())) + ","
              + (I->isAnyMemberInitializer() ? jstr(hexid(I->getAnyMember())) : std::string("null")) + ","
              + (I->isAnyMemberInitializer() ? jstr(I->getAnyMember()->getNameAsString()) : jstr("<base>")) + ","
              + (I->isWritten() ? "true" : "false") + "]";
          break;
        }
        case CFGElement::AutomaticObjectDtor: {
          auto AD = E.castAs<CFGAutomaticObjDtor>();
          e = "[\"AD\"," + jstr(hexid(AD.getVarDecl())) + "," + jstr(AD.getVarDecl()->getNameAsString())
              + "," + jstr(canonStr(AD.getVarDecl()->getType())) + "," + jstr(hexid(AD.getTriggerStmt())) + "]";
          break;
        }
        case CFGElement::TemporaryDtor: {
          auto TD = E.castAs<CFGTemporaryDtor>();
          e = "[\"TD\"," + jstr(hexid(TD.getBindTemporaryExpr())) + "]";
          break;
        }
        case CFGElement::MemberDtor: {
          auto MD = E.castAs<CFGMemberDtor>();
          e = "[\"MD\"," + jstr(hexid(MD.getFieldDecl())) + "," + jstr(MD.getFieldDecl()->getNameAsString()) + "]";
          break;
        }
        case CFGElement::BaseDtor: {
          auto BD = E.castAs<CFGBaseDtor>();
          e = "[\"BD\"," + jstr(canonStr(BD.getBaseSpecifier()->getType())) + "]";
          break;
        }
        case CFGElement::DeleteDtor: {
          auto DD = E.castAs<CFGDeleteDtor>();
          e = "[\"DD\"," + jstr(hexid(DD.getDeleteExpr())) + "]";
          break;
        }
        default:
          continue;
        }
        if (!firstE)
          s += ",";
        firstE = false;
        s += e;
      }
      s += "]";
      CFGTerminator T = B->getTerminator();
      if (T.isValid()) {
        s += ",\"term\":" + jstr(hexid(T.getStmt()));
        s += ",\"tk\":" + std::to_string((int)T.getKind());
        if (const Stmt *C = B->getTerminatorCondition(false))
          s += ",\"cond\":" + jstr(hexid(C));
      }
      if (const Stmt *Lbl = B->getLabel())
        s += ",\"label\":" + jstr(hexid(Lbl));
      if (B->hasNoReturnElement())
        s += ",\"noret\":true";
      s += ",\"succ\":[";
      bool firstS = true;
      for (auto SI = B->succ_begin(); SI != B->succ_end(); ++SI) {
        if (!firstS)
          s += ",";
        firstS = false;
        if (const CFGBlock *SB = SI->getReachableBlock())
          s += std::to_string(SB->getBlockID());
        else
          s += "null";
      }
      s += "]}";
    }
    s += "]}";
    if (!cfgBuf.empty())
      cfgBuf += ",\n";
    cfgBuf += s;
  }
};

class Consumer : public ASTConsumer
{
  Opts O;

 public:
  explicit Consumer(Opts O) : O(std::move(O)) {}

  void HandleTranslationUnit(ASTContext &Ctx) override
  {
    if (Ctx.getDiagnostics().hasErrorOccurred()) {
      llvm::errs() << "rkfacts: errors in translation unit, no facts written\n";
      return;
    }
    std::error_code EC;
    llvm::raw_fd_ostream OS(O.out, EC, llvm::sys::fs::OF_None);
    if (EC) {
      llvm::errs() << "rkfacts: cannot open " << O.out << ": " << EC.message() << "\n";
      return;
    }
    Facts F(Ctx, O, OS);
    OS << "{\"decls\":[\n";
    bool first = true;
    if (!O.noast) {
      for (Decl *D : Ctx.getTranslationUnitDecl()->decls()) {
        if (D->isImplicit())
          continue;
        if (!F.inRoots(D->getLocation()))
          continue;
        if (!first)
          OS << ",\n";
        first = false;
        D->dump(OS, false, ADOF_JSON);
      }
    }
    OS << "\n],\n";
    F.TraverseDecl(Ctx.getTranslationUnitDecl());
    OS << "\"side\":{\n" << F.sideBuf << "\n},\n";
    OS << "\"records\":[\n" << F.recBuf << "\n],\n";
    OS << "\"functions\":[\n" << F.fnBuf << "\n],\n";
    OS << "\"cfgs\":[\n" << F.cfgBuf << "\n],\n";
    OS << "\"files\":[";
    for (size_t i = 0; i < F.files.size(); ++i) {
      if (i)
        OS << ",";
      OS << jstr(F.files[i]);
    }
    OS << "]}\n";
  }
};

class Action : public PluginASTAction
{
  Opts O;

 protected:
  std::unique_ptr<ASTConsumer> CreateASTConsumer(CompilerInstance &, llvm::StringRef) override
  {
    return std::make_unique<Consumer>(O);
  }
  bool ParseArgs(const CompilerInstance &, const std::vector<std::string> &args) override
  {
    for (auto &a : args) {
      if (a.rfind("out=", 0) == 0)
        O.out = a.substr(4);
      else if (a.rfind("root=", 0) == 0)
        O.roots.push_back(a.substr(5));
      else if (a == "noast")
        O.noast = true;
    }
    if (O.out.empty()) {
      llvm::errs() << "rkfacts: missing out=<file>\n";
      return false;
    }
    return true;
  }
};

} // namespace

static FrontendPluginRegistry::Add<Action> X("rkfacts", "rkcommon fact extractor");
