"""CFG toolkit: blocks/elements as emitted by rkfacts, dominators, and a generic
finite-domain abstract exploration (path-sensitive by state splitting)."""
from collections import deque


class Block:
    __slots__ = ('id', 'el', 'term', 'tk', 'cond', 'succ', 'noret', 'label')

    def __init__(self, d):
        self.id = d['id']
        self.el = d['el']          # list of lists: ["S", stmtid] | ["I", initexpr, fieldid, name, written] | ...
        self.term = d.get('term')
        self.tk = d.get('tk')
        self.cond = d.get('cond')
        self.succ = d['succ']      # list of block ids or None (pruned)
        self.noret = d.get('noret', False)
        self.label = d.get('label')


class CFG:
    def __init__(self, d, tu):
        self.tu = tu
        self.fn = d['fn']
        self.entry = d['entry']
        self.exit = d['exit']
        self.blocks = {b['id']: Block(b) for b in d['blocks']}
        self._preds = None
        self._dom = None
        self._pdom = None
        self._where = None

    # ------------------------------------------------------------------ structure
    def preds(self):
        if self._preds is None:
            p = {b: [] for b in self.blocks}
            for b in self.blocks.values():
                for s in b.succ:
                    if s is not None:
                        p[s].append(b.id)
            self._preds = p
        return self._preds

    def reachable(self):
        seen = {self.entry}
        dq = deque([self.entry])
        while dq:
            b = dq.popleft()
            for s in self.blocks[b].succ:
                if s is not None and s not in seen:
                    seen.add(s)
                    dq.append(s)
        return seen

    def _domtree(self, start, succs):
        nodes = set()
        dq = deque([start])
        nodes.add(start)
        while dq:
            b = dq.popleft()
            for s in succs(b):
                if s not in nodes:
                    nodes.add(s)
                    dq.append(s)
        preds = {n: [] for n in nodes}
        for n in nodes:
            for s in succs(n):
                if s in nodes:
                    preds[s].append(n)
        dom = {n: set(nodes) for n in nodes}
        dom[start] = {start}
        changed = True
        while changed:
            changed = False
            for n in nodes:
                if n == start:
                    continue
                ps = [dom[p] for p in preds[n]]
                new = set.intersection(*ps) if ps else set()
                new = new | {n}
                if new != dom[n]:
                    dom[n] = new
                    changed = True
        return dom

    def dominators(self):
        if self._dom is None:
            self._dom = self._domtree(self.entry, lambda b: [s for s in self.blocks[b].succ if s is not None])
        return self._dom

    def postdominators(self):
        if self._pdom is None:
            pr = self.preds()
            self._pdom = self._domtree(self.exit, lambda b: pr[b])
        return self._pdom

    def where(self, stmt_id):
        """(block id, element index) of a statement, or None"""
        if self._where is None:
            w = {}
            for b in self.blocks.values():
                for i, e in enumerate(b.el):
                    if e[0] == 'S':
                        w.setdefault(e[1], (b.id, i))
                    elif e[0] == 'I':
                        w.setdefault(e[1], (b.id, i))
            self._where = w
        return self._where.get(stmt_id)

    def dominates(self, a, b):
        """does position a=(blk,idx) dominate position b=(blk,idx)?"""
        if a[0] == b[0]:
            return a[1] <= b[1]
        return a[0] in self.dominators().get(b[0], ())

    def postdominates(self, a, b):
        """does position a post-dominate position b?"""
        if a[0] == b[0]:
            return a[1] >= b[1]
        return a[0] in self.postdominators().get(b[0], ())

    def elements(self):
        for b in self.blocks.values():
            for i, e in enumerate(b.el):
                yield b, i, e

    def stmts(self):
        """all statement nodes that appear as CFG elements, in block order"""
        for b, i, e in self.elements():
            if e[0] == 'S':
                n = self.tu.node(e[1])
                if n is not None:
                    yield b, i, n

    def back_edges(self):
        dom = self.dominators()
        out = []
        for b in self.blocks.values():
            for s in b.succ:
                if s is not None and b.id in dom and s in dom.get(b.id, ()):
                    out.append((b.id, s))
        return out

    def last_cond(self, b):
        """the expression whose value decides the branch at the end of block b"""
        blk = self.blocks[b] if not isinstance(b, Block) else b
        if blk.cond:
            return blk.cond
        return None

    # ------------------------------------------------------------------ exploration
    def explore(self, inits, transfer, refine=None, limit=400000):
        """Finite-domain abstract exploration.

        inits: iterable of hashable states at function entry
        transfer(block, idx, elem, state) -> iterable of successor states (may be empty: path ends)
        refine(block, succ_index, state) -> iterable of states for edge block -> block.succ[succ_index]
        Returns Result with .entry_states (block -> set), .exits (set of (state, via_block)),
        .pred (for witness paths).
        """
        res = Exploration(self)
        work = deque()
        for s in inits:
            key = (self.entry, s)
            if key not in res.pred:
                res.pred[key] = None
                work.append(key)
        steps = 0
        while work:
            key = work.popleft()
            bid, st = key
            res.entry_states.setdefault(bid, set()).add(st)
            blk = self.blocks[bid]
            states = [st]
            for i, e in enumerate(blk.el):
                nxt = []
                for s in states:
                    for s2 in transfer(blk, i, e, s):
                        if s2 not in nxt:
                            nxt.append(s2)
                states = nxt
                if not states:
                    break
            if bid == self.exit:
                continue
            for si, succ in enumerate(blk.succ):
                if succ is None:
                    continue
                for s in states:
                    outs = refine(blk, si, s) if refine else [s]
                    for s2 in outs:
                        if succ == self.exit:
                            res.exits.add((s2, bid))
                        k2 = (succ, s2)
                        if k2 not in res.pred:
                            res.pred[k2] = key
                            work.append(k2)
                            steps += 1
                            if steps > limit:
                                raise RuntimeError('state explosion in CFG exploration')
        return res


class Exploration:
    def __init__(self, cfg):
        self.cfg = cfg
        self.entry_states = {}
        self.exits = set()
        self.pred = {}

    def path_to(self, bid, state):
        """block-id path from entry to (bid, state) as recorded during exploration"""
        out = []
        key = (bid, state)
        seen = set()
        while key is not None and key not in seen:
            seen.add(key)
            out.append(key)
            key = self.pred.get(key)
        out.reverse()
        return out
