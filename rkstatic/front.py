"""Front end: derive flags from the repository, run the rkfacts plugin, load fact files.

Nothing of rkcommon is executed: every unit is parsed with `clang++ -fsyntax-only`.
"""
import hashlib
import json
import os
import re
import subprocess
import sys
import time
from concurrent.futures import ThreadPoolExecutor

VERIF = os.path.dirname(os.path.dirname(os.path.abspath(__file__)))
BUILD = os.path.join(VERIF, 'build')
PLUGIN_SRC = os.path.join(VERIF, 'plugin', 'rkfacts.cc')
PLUGIN_SO = os.path.join(BUILD, 'rkfacts.so')
DRIVERS = os.path.join(VERIF, 'drivers')
WITNESS = os.path.join(VERIF, 'witness')

CONFIG_DEFS = {
    'TBB': ['-DRKCOMMON_TASKING_TBB'],
    'OMP': ['-DRKCOMMON_TASKING_OMP', '-fopenmp'],
    'INTERNAL': ['-DRKCOMMON_TASKING_INTERNAL'],
    'DEBUG': [],
}
ALL_CONFIGS = ['TBB', 'OMP', 'INTERNAL', 'DEBUG']


class AnalysisBroken(Exception):
    pass


def sh(cmd, **kw):
    return subprocess.run(cmd, stdout=subprocess.PIPE, stderr=subprocess.PIPE, text=True, **kw)


def ensure_plugin():
    os.makedirs(BUILD, exist_ok=True)
    if os.path.exists(PLUGIN_SO) and os.path.getmtime(PLUGIN_SO) >= os.path.getmtime(PLUGIN_SRC):
        return
    cxxflags = sh(['llvm-config-14', '--cxxflags']).stdout.split()
    tmp = PLUGIN_SO + '.%d.tmp' % os.getpid()
    r = sh(['clang++'] + cxxflags + ['-fno-rtti', '-fPIC', '-shared', '-O1', PLUGIN_SRC, '-o', tmp])
    if r.returncode != 0:
        raise AnalysisBroken('cannot build rkfacts plugin:\n' + r.stderr[-3000:])
    os.replace(tmp, PLUGIN_SO)


class Front:
    def __init__(self, root='/repo'):
        self.root = os.path.abspath(root)
        self.key = hashlib.sha1(self.root.encode()).hexdigest()[:10]
        self.gen = os.path.join(BUILD, 'gen-' + self.key)
        self.facts_dir = os.path.join(BUILD, 'facts-' + self.key)
        self._cache = {}
        self.parsed = []  # (unit, config, seconds)
        ensure_plugin()
        self._gen_version()

    # ------------------------------------------------------------------ configuration
    def _gen_version(self):
        src = os.path.join(self.root, 'rkcommon', 'version.h.in')
        cm = os.path.join(self.root, 'CMakeLists.txt')
        if not os.path.exists(src) or not os.path.exists(cm):
            raise AnalysisBroken('not an rkcommon tree: %s' % self.root)
        m = re.search(r'project\s*\(\s*rkcommon\s+VERSION\s+(\d+)\.(\d+)\.(\d+)', open(cm).read())
        ver = m.groups() if m else ('0', '0', '0')
        txt = open(src).read()
        txt = (txt.replace('@PROJECT_VERSION_MAJOR@', ver[0]).replace('@PROJECT_VERSION_MINOR@', ver[1])
               .replace('@PROJECT_VERSION_PATCH@', ver[2]).replace('@PROJECT_VERSION@', '.'.join(ver)))
        d = os.path.join(self.gen, 'rkcommon')
        os.makedirs(d, exist_ok=True)
        p = os.path.join(d, 'version.h')
        if not os.path.exists(p) or open(p).read() != txt:
            open(p, 'w').write(txt)

    def library_sources(self):
        """Source list of the rkcommon library, read from rkcommon/CMakeLists.txt."""
        txt = open(os.path.join(self.root, 'rkcommon', 'CMakeLists.txt')).read()
        srcs = re.findall(r'^\s+([\w/]+\.cpp)\s*$', txt, re.M)
        return ['rkcommon/' + s for s in dict.fromkeys(srcs)]

    def flags(self, config='TBB', simd=True, std='c++11', extra=()):
        f = ['-std=' + std, '-UNDEBUG', '-I' + self.root, '-I' + self.gen, '-I' + os.path.join(self.root, 'rkcommon'),
             '-I' + VERIF, '-Wno-everything']
        f += CONFIG_DEFS[config]
        if not simd:
            f += ['-DRKCOMMON_NO_SIMD']
        f += list(extra)
        return f

    def unit_path(self, unit):
        if os.path.isabs(unit):
            return unit
        if unit.startswith('drivers/') or unit.startswith('witness/'):
            return os.path.join(VERIF, unit)
        return os.path.join(self.root, unit)

    # ------------------------------------------------------------------ parsing
    def _facts_path(self, unit, config, simd, std, extra):
        k = hashlib.sha1(repr((unit, config, simd, std, tuple(extra))).encode()).hexdigest()[:12]
        base = os.path.basename(unit).replace('.', '_')
        return os.path.join(self.facts_dir, '%s-%s-%s-%d.json' % (base, config, k, os.getpid()))

    def _run_plugin(self, unit, config, simd, std, extra, noast):
        os.makedirs(self.facts_dir, exist_ok=True)
        out = self._facts_path(unit, config, simd, std, extra)
        if os.path.exists(out):
            os.unlink(out)
        cmd = ['clang++', '-fsyntax-only'] + self.flags(config, simd, std, extra)
        pa = ['out=' + out, 'root=' + self.root + '/', 'root=' + DRIVERS + '/', 'root=' + WITNESS + '/']
        if noast:
            pa.append('noast')
        cmd += ['-fplugin=' + PLUGIN_SO, '-Xclang', '-plugin', '-Xclang', 'rkfacts']
        for a in pa:
            cmd += ['-Xclang', '-plugin-arg-rkfacts', '-Xclang', a]
        cmd.append(self.unit_path(unit))
        t = time.time()
        r = sh(cmd)
        dt = time.time() - t
        if r.returncode != 0 or not os.path.exists(out):
            raise AnalysisBroken('front end failed on %s [%s]:\n%s' % (unit, config, (r.stderr or r.stdout)[-4000:]))
        return out, dt

    def parse(self, unit, config='TBB', simd=True, std='c++11', extra=(), noast=False):
        from .tu import TU
        key = (unit, config, simd, std, tuple(extra), noast)
        if key in self._cache:
            return self._cache[key]
        out, dt = self._run_plugin(unit, config, simd, std, extra, noast)
        with open(out) as fh:
            data = json.load(fh)
        os.unlink(out)
        tu = TU(data, unit=unit, config=config, root=self.root)
        self._cache[key] = tu
        self.parsed.append({'unit': unit, 'config': config, 'simd': simd, 'std': std, 'seconds': round(dt, 2),
                            'functions': len(tu.functions), 'cfgs': len(tu.cfgs)})
        return tu

    def parse_many(self, jobs):
        """jobs: list of dicts with keys of parse(); runs the plugin processes in parallel."""
        def one(j):
            return self.parse(**j)
        with ThreadPoolExecutor(max_workers=min(16, max(1, len(jobs)))) as ex:
            return list(ex.map(one, jobs))

    # ------------------------------------------------------------------ compile-time witnesses
    def compile_check(self, unit, config='TBB', simd=True, std='c++11', extra=(), compiler='clang++'):
        """Compile a witness unit with -fsyntax-only; returns (returncode, diagnostics)."""
        cmd = [compiler, '-fsyntax-only'] + [x for x in self.flags(config, simd, std, extra)
                                              if not (compiler != 'clang++' and x == '-Wno-everything')]
        if compiler == 'clang++':
            cmd += ['-ferror-limit=0']
        else:
            cmd += ['-fmax-errors=0', '-w']
        cmd.append(self.unit_path(unit))
        r = sh(cmd)
        return r.returncode, r.stderr

    def emit_ir(self, unit, config='TBB', simd=True, std='c++11', extra=(), opt='-O1'):
        """LLVM IR text of a driver (compiled, never linked or run)."""
        cmd = ['clang++', '-S', '-emit-llvm', opt, '-fno-vectorize', '-fno-slp-vectorize', '-fno-unroll-loops',
               '-ffp-contract=off', '-fno-discard-value-names', '-o', '-'] + self.flags(config, simd, std, extra)
        cmd.append(self.unit_path(unit))
        r = sh(cmd)
        if r.returncode != 0:
            raise AnalysisBroken('IR generation failed on %s:\n%s' % (unit, r.stderr[-3000:]))
        return r.stdout

    def rel(self, path):
        if path.startswith(self.root + '/'):
            return path[len(self.root) + 1:]
        if path.startswith(VERIF + '/'):
            return 'verif:' + path[len(VERIF) + 1:]
        return path
