"""Inlining abstract interpreter over a few tracked objects with small finite per-object states.

A rule subclasses ObjInterp and provides:
  * is_own_fn(fnentry)            - may this callee be inlined (member of the analysed class family)?
  * on_node(node, st, fr)         - transfer for one CFG statement element; returns list of states
                                    (default: calls to own members on tracked objects are inlined)
  * eval_bool(expr, st, fr)       - True / False / None for a branch condition
  * aval(expr, st, fr)            - abstract value of an expression (returned values)
States are dicts frozen as sorted tuples: (('other', v), ('this', v), ...).  '$ret' holds the
abstract return value on the way out of a function.
"""


def freeze(d):
    return tuple(sorted(d.items()))


def thaw(t):
    return dict(t)


class Frame:
    def __init__(self, fn, env, parent=None, call=None):
        self.fn = fn            # function table entry
        self.env = env          # {'this': objname or None, <param decl id>: objname}
        self.parent = parent
        self.call = call        # call node in the parent frame

    def chain(self, tu):
        out = []
        f = self
        while f is not None:
            out.append('%s (%s)' % (f.fn['q'], tu.fn_loc(f.fn)))
            f = f.parent
        return list(reversed(out))


class ObjInterp:
    MAX_DEPTH = 12

    def __init__(self, tu):
        self.tu = tu
        self.memo = {}
        self.findings = []   # (kind, detail, node, frame-chain, state)
        self._cur = None     # findings collector of the innermost running summary
        self.undecided = []

    # ---- to be provided by the rule ---------------------------------------------------------
    def is_own_fn(self, f):
        return False

    def on_node(self, n, st, fr):
        return None

    def eval_bool(self, e, st, fr):
        return None

    def aval(self, e, st, fr):
        return None

    def on_init(self, elem, st, fr, depth=0):
        return [st]

    def on_dtor_elem(self, elem, st, fr):
        return [st]

    # ---- helpers ------------------------------------------------------------------------------
    def obj_of(self, e, fr):
        """tracked object an expression designates (this / *this / a bound parameter / std::move of one)"""
        tu = self.tu
        e = tu.strip(e, casts=True)
        if e is None:
            return None
        k = e.get('kind')
        if k == 'CXXThisExpr':
            return fr.env.get('this')
        if k == 'UnaryOperator' and e.get('opcode') in ('*', '&'):
            return self.obj_of(tu.kids(e)[0], fr)
        if k == 'DeclRefExpr':
            return fr.env.get(e.get('referencedDecl', {}).get('id'))
        if k == 'CallExpr':
            q = tu.sd(e).get('q', '')
            if q in ('std::move', 'std::forward', 'std::addressof'):
                ks = tu.kids(e)
                if len(ks) == 2:
                    return self.obj_of(ks[1], fr)
        return None

    def report(self, kind, detail, node, fr, st):
        rec = (kind, detail, node['id'] if node else None, tuple(fr.chain(self.tu)), st, fr.fn['id'])
        if self._cur is not None:
            self._cur.append(rec)

    # ---- interprocedural core -----------------------------------------------------------------
    def run_fn(self, f, env, st, parent=None, call=None, depth=0):
        """returns list of (exit_state_without_ret, retval); findings are appended to the active collector"""
        tu = self.tu
        key = (f['id'], freeze({k: v for k, v in env.items()}), st)
        if key in self.memo:
            outs, found = self.memo[key]
            if self._cur is not None:
                # re-emit findings of the memoised summary in the current context
                for r in found:
                    if r not in self._cur:
                        self._cur.append(r)
            return outs
        g = tu.cfg(f)
        if g is None or depth > self.MAX_DEPTH:
            self.undecided.append('no CFG for %s (%s)' % (f['q'], tu.fn_loc(f)))
            return [(st, None)]
        fr = Frame(f, env, parent, call)
        saved = self._cur
        mine = []
        self._cur = mine
        self.memo[key] = ([(st, None)], [])  # recursion guard

        def transfer(blk, i, e, s):
            if e[0] == 'S':
                n = tu.node(e[1])
                if n is None:
                    return [s]
                k = n.get('kind')
                if k == 'ReturnStmt':
                    ks = tu.kids(n)
                    d = thaw(s)
                    d['$ret'] = self.aval(ks[0], s, fr) if ks else None
                    return [freeze(d)]
                r = self.on_node(n, s, fr)
                if r is None:
                    r = self.default_node(n, s, fr, depth)
                return r
            if e[0] == 'I':
                return self.on_init(e, s, fr, depth)
            return self.on_dtor_elem(e, s, fr)

        def refine(blk, si, s):
            if blk.cond is None or len(blk.succ) != 2:
                return [s]
            c = tu.node(blk.cond)
            if c is None:
                return [s]
            v = self.eval_bool(c, s, fr)
            if v is None:
                return [s]
            want = (si == 0)
            return [s] if v == want else []

        res = g.explore([st], transfer, refine)
        outs = []
        for (s, via) in res.exits:
            if g.blocks[via].noret:
                continue
            d = thaw(s)
            rv = d.pop('$ret', None)
            o = (freeze(d), rv)
            if o not in outs:
                outs.append(o)
        self._cur = saved
        self.memo[key] = (outs, mine)
        if saved is not None:
            for r in mine:
                if r not in saved:
                    saved.append(r)
        return outs

    def bind_call(self, n, fr):
        """(callee entry, env) for a call node whose callee may be inlined, else (None, None)"""
        tu = self.tu
        callee = tu.callee_fn(n)
        s, obj, args = tu.call_parts(n)
        if callee is None:
            return None, None
        env = {}
        if obj is not None:
            env['this'] = self.obj_of(obj, fr)
        for p, a in zip(callee.get('params', []), args):
            o = self.obj_of(a, fr)
            if o is not None:
                env[p['id']] = o
        return callee, env

    def default_node(self, n, st, fr, depth):
        """inline calls to own members when they act on at least one tracked object"""
        tu = self.tu
        k = n.get('kind')
        if k == 'DeclStmt':
            return self.on_decl(n, st, fr, depth)
        if k in ('CXXMemberCallExpr', 'CXXOperatorCallExpr', 'CallExpr'):
            sd = tu.sd(n)
            d = sd.get('def') or sd.get('d')
            callee = tu.functions.get(d)
            if callee is None:
                if sd.get('rec') and self.looks_own(sd) :
                    s_, obj, args = tu.call_parts(n)
                    if obj is not None and self.obj_of(obj, fr) is not None:
                        self.undecided.append('call to %s on a tracked object has no body to analyse (%s)'
                                              % (sd.get('q'), tu.loc(n)))
                return [st]
            if not self.is_own_fn(callee):
                return [st]
            callee, env = self.bind_call(n, fr)
            if not any(v is not None for v in env.values()):
                return [st]
            env = {k2: v for k2, v in env.items() if v is not None}
            outs = self.run_fn(callee, env, st, fr, n, depth + 1)
            res = []
            for (s2, rv) in outs:
                s3 = self.after_call(n, callee, env, s2, rv, fr)
                for x in s3:
                    if x not in res:
                        res.append(x)
            return res
        return [st]

    def looks_own(self, sd):
        return False

    def local_init_state(self):
        return None

    def on_decl(self, n, st, fr, depth):
        """a local variable of the analysed class, initialised by one of its constructors, becomes a tracked object"""
        tu = self.tu
        init_state = self.local_init_state()
        if init_state is None:
            return [st]
        outs = [st]
        for v in tu.kids(n):
            if v.get('kind') != 'VarDecl':
                continue
            ks = tu.kids(v)
            if not ks:
                continue
            ce = tu.strip(ks[-1])
            if ce is None or ce.get('kind') not in ('CXXConstructExpr', 'CXXTemporaryObjectExpr'):
                continue
            callee = tu.callee_fn(ce)
            if callee is None or not self.is_own_fn(callee) or not callee.get('ctor'):
                continue
            name = '%s@%s' % (v.get('name', 'local'), fr.fn['q'].split('::')[-1])
            fr.env[v['id']] = name
            env = {'this': name}
            s_, o_, args = tu.call_parts(ce)
            for p, a in zip(callee.get('params', []), args):
                ob = self.obj_of(a, fr)
                if ob is not None:
                    env[p['id']] = ob
            nxt = []
            for s in outs:
                d = thaw(s)
                d[name] = init_state
                for (s2, rv) in self.run_fn(callee, env, freeze(d), fr, ce, depth + 1):
                    if s2 not in nxt:
                        nxt.append(s2)
            outs = nxt
        return outs

    def after_call(self, n, callee, env, st, rv, fr):
        return [st]

    def call_value(self, n, st, fr, depth=0):
        """set of abstract return values of an inlinable call evaluated in state st (state changes ignored)"""
        callee, env = self.bind_call(n, fr)
        if callee is None or not self.is_own_fn(callee):
            return None
        env = {k2: v for k2, v in env.items() if v is not None}
        if not env:
            return None
        saved = self._cur
        self._cur = None  # evaluation for a value: findings are produced where the call is executed
        try:
            outs = self.run_fn(callee, env, st, fr, n, depth + 1)
        finally:
            self._cur = saved
        return [rv for (_, rv) in outs]

    # ---- entry ------------------------------------------------------------------------------
    def analyse_entry(self, f, env, inits):
        """run f from each initial state; returns list of (init, [(exit_state, ret)], findings)"""
        out = []
        for st in inits:
            mine = []
            self._cur = mine
            outs = self.run_fn(f, env, st)
            self._cur = None
            out.append((st, outs, list(mine)))
        return out
