"""irnorm - algebraic summaries from the compiler's IR ("SSA value-graph normal form").

Purpose
-------
Value-level clauses of the form *this composed expression equals that one for all values* are stated as
**identity drivers**: small `extern "C"` functions in /verif/drivers/alg_*.cpp that compute one side of an
identity through rkcommon's public API and write the result to the return value / out-parameters.  They are
compiled (never linked, never run) by `ctx.front.emit_ir(unit, config, simd, extra=('-DNDEBUG',))` to LLVM IR
text.  This module reads that text and maps every returned / stored scalar of a *loop-free* function to a
symbolic term over the function's inputs (scalar arguments and memory reachable from pointer arguments).
Two sides are then compared by exact polynomial / rational-function identity (sympy, exact rationals).
It is the computation a compiler's GVN / instcombine performs on an SSA graph: no inputs are generated,
nothing is executed, no solver is called.

Quick start
-----------
    from rkstatic import irnorm
    mod  = irnorm.Module(ctx.front.emit_ir('drivers/alg_scalar.cpp', 'TBB', simd=True, extra=('-DNDEBUG',)))
    fn   = mod.function('K_lerp')             # KeyError if the driver function vanished  -> ctx.broken
    s    = fn.summary()                       # raises irnorm.Undecided(reason)            -> ctx.undecided
    outs = s.outs()                           # {slot: [(guard, term), ...]}   slot 'ret' / 'out[8]' / ...
    t    = s.value('ret')                     # the single term of a slot (Undecided if there are several paths)
    irnorm.equal(t, (1 - f)*a + f*b)          # True / False     (f, a, b = irnorm.sym('f'), ...)
    irnorm.equal_guarded(outsA['ret'], outsB['ret'])   # guarded comparison, see below

Naming of inputs: a scalar argument `%x` is the symbol `x`; a scalar loaded from pointer argument `%v` at
byte offset 8 (before any store to it) is the symbol `v[8]`; use `irnorm.sym('v[8]')`.  Both sides of an
identity therefore share inputs when their drivers use the same parameter names and types.  A pointer that
is itself loaded from memory (`a->value`) is an opaque base; a load through it at a symbolic byte offset
`o` is the atom `ld_f32(a[40], o)`.

Terms
-----
sympy expressions over symbols, exact rationals (float constants are converted exactly) and atoms
(uninterpreted sympy functions):
  * float ops fadd/fsub/fmul/fdiv/fneg are the real-number operations (rounding is NOT modelled; with
    `summary(rounding=True)` every rounded operation k multiplies its result by `(1 + _d<k>)`, which gives
    the error polynomial used by C07; `path.nround` counts them in either mode and `path.fpvals` lists every
    intermediate result `(rounding symbol, term)` so that a rule can bound intermediate magnitudes);
  * integers: add/sub/mul/shl-by-constant are ring operations (a term of type iN denotes a residue mod 2^N,
    so a polynomial identity over Z implies the identity mod 2^N); `udiv/sdiv` are atoms `udiv64(e,d)` ...,
    `urem/srem` are `e - d*udivN(e,d)` (the Div/Mod axiom); `lshr` by a constant is `udivN(e, 2^k)`;
    `and` with a low mask is the corresponding remainder; other and/or/xor are commutative atoms
    `orN(...)`, `andN(...)`, `xorN(...)`; variable shifts / funnel shifts are opaque atoms `op_*`;
  * float bit patterns: `bitcast float -> iN` (scalar or per lane of a vector) is the atom `bits_f32_i32(t)` that remembers t;
    `& signmask` gives `signbit32(t)`, `| bits(c)` (c >= 0 constant) on that gives, cast back, `copysign(c, t)`;
    `& ~signmask` is `fabs(t)`, `^ signmask` is `-t`; casting an unmodified pattern back returns t; the SSE scalar compares
    (`cmp.ss`) give a mask, and `(mask & bits(u)) | (~mask & bits(v))` is read as `bits(Sel(cond, u, v))`;
  * extensions: each integer value carries flags *sx* / *ux* ("the polynomial's integer value IS the
    signed / unsigned value of the residue") and a magnitude bound.  An input symbol denotes its *signed*
    value (`summary(nonneg=[...])` declares inputs that are also non-negative).  `sext`/`zext` of a value
    with the right flag is the identity; otherwise it is an atom `sext32_64(t)` / `zext32_64(t)`.
    `trunc` keeps the polynomial and drops the flags unless the bound proves that the value fits.
    `ashr(shl(t,k),k)` is read as sext(trunc(t)).  `summary(fits=callable)` lets a rule accept a narrowing
    it has a stated reason for (every acceptance is recorded in `path.assumed`).  Atoms created by an
    unproved narrowing and `op_*` atoms are **opaque**: `irnorm.opaque_atoms(t)` lists them; a failed
    identity that involves opaque atoms is *undecided*, not a violation;
  * packed words: LLVM copies small structs as integers (`load i64` over two ints, `or(shl(zext y,32), zext x)`,
    `and x, 0xffffffff`, `lshr/ashr 32`, `trunc`).  Integer values remember such an origin (`IntV.org`), a load that
    covers several stored scalars - or several fields of the declared pointee type of a pointer argument - yields
    the packed word of those pieces, and a store of a packed word writes the pieces back, so out-slots are always
    per field (`out[0]`, `out[4]`, ...).  A memcpy from never-written argument memory is expanded by the pointee type;
  * icmp/fcmp are comparison atoms `olt(a,b)`, `slt(a,b)`, ... in canonical direction (gt -> swapped lt,
    negated predicates -> `BNot(..)`; negating an ordered float comparison assumes no NaN, recorded);
    `select` is `Sel(cond, a, b)`; branches/phis are handled by enumerating the (bounded) paths of the
    loop-free CFG, each path carrying its guard (a list of literals);
  * intrinsics as listed symbols: `rcp_ss(a)`, `rsqrt_ss(a)`, `rcp14_ss(a)`, `rsqrt14_ss(a)` (x86 estimates, no axiom), `sqrt` (sympy's
    own, so sqrt(x)^2 = x), `Sin`, `Cos` (axiom sin^2+cos^2=1 applied by `equal(..., trig=True)`),
    `fabs`, `copysign`, `round`, `floor`, `ceil`, `pow`, `exp`, `log`, `tan`, `acos`, `asin`, `atan`,
    `atan2`, `fmod`, `fmin/fmax` (minnum/maxnum), `smin/smax/umin/umax` as `Sel` over the comparison,
    `fmuladd` = a*b+c, memcpy/memmove/memset(0) of constant size on the byte-addressed store;
  * calls to functions *defined* in the module are evaluated by substitution (recursively, same store).

Loops are not summarised; they are *executed* symbolically, so a loop with compile-time-constant bounds (`for (i = 0; i < 4;
i++)`) is unrolled and decided, while a loop whose trip count depends on an input forks at every exit test and ends in
`Undecided` after MAX_UNROLL visits (`summary(unroll=False)` rejects every back edge).
Outside the fragment => `Undecided`: a loop not bounded by constants, an indirect or unknown call, an unmodelled
instruction, a load of uninitialised or partially overlapping memory, more than MAX_PATHS paths.
Never treat Undecided as a pass.

Comparing
---------
  equal(a, b, trig=False)            exact identity of two Sel-free terms (a - b == 0 as a rational function)
  is_zero(t, trig=False)
  cases(term, guard=())              expand the Sel nodes of a term -> [(guard, Sel-free term)], pruning
                                      guards that `consistent` refutes
  equal_under(guard, a, b)           identity after substituting the equalities the guard forces (x<=y & y<=x)
  equal_guarded(A, B, assume=())     A, B = [(guard, term)]; every pair with a consistent joint guard must
                                      have equal terms; returns (True, None) or (False, (gA, tA, gB, tB))
  in_order_vocabulary(literals)      all literals are plain order comparisons (a consistent guard is then satisfiable)
  consistent(literals)               sound refutation of a conjunction of comparison literals: l and not l,
                                      and the theory of a total order (<, <=, =, != between identical terms;
                                      numeric constants ordered); complete for independent operands
  lit(pred, a, b) / neg(l)           build literals for `assume=` and for rule-side checks
  error_bound(t, bounds)             rigorous bound of |t| for a polynomial/rational t in small quantities
                                      (interval arithmetic over the monomials), used for R-C07-1
  opaque_atoms(t), atoms(t, name)    inspection helpers
  or_operands(t), and friends        flatten a commutative bit-op atom

Assumptions built into every verdict obtained through this module (record them with ctx.assume):
  real-number semantics of float operations (no rounding, no NaN / infinities / signed zeros);
  absence of undefined behaviour (nsw/nuw/exact flags are taken at their word);
  distinct pointer arguments (and pointers loaded from them) address disjoint objects;
  denominators are non-zero.
"""
import re
import struct
from fractions import Fraction

import sympy as sp

MAX_PATHS = 256
MAX_UNROLL = 64          # visits of one block on one path (loops are executed symbolically, never summarised)
MAX_CASES = 4096
MAX_CALL_DEPTH = 12


class Undecided(Exception):
    """the function (or comparison) is outside the decided fragment; the message names the construct"""


# =====================================================================================================
#  tokenizer / type parser
# =====================================================================================================
_TOK = re.compile(r'''
    (?P<ws>\s+)
  | (?P<comment>;.*$)
  | (?P<local>%"(?:[^"\\]|\\.)*"|%[-a-zA-Z$._0-9]+)
  | (?P<glob>@"(?:[^"\\]|\\.)*"|@[-a-zA-Z$._0-9]+)
  | (?P<comdat>\$"(?:[^"\\]|\\.)*"|\$[-a-zA-Z$._0-9]+)
  | (?P<meta>![-a-zA-Z$._0-9]*)
  | (?P<attr>\#\d+)
  | (?P<cstr>c"(?:[^"\\]|\\.)*")
  | (?P<str>"(?:[^"\\]|\\.)*")
  | (?P<hex>0x[KLMHR]?[0-9A-Fa-f]+)
  | (?P<flt>-?\d+\.\d*(?:[eE][+-]?\d+)?)
  | (?P<int>-?\d+)
  | (?P<dots>\.\.\.)
  | (?P<word>[a-zA-Z_][a-zA-Z0-9_.]*)
  | (?P<p>[(){}\[\]<>,=*:|])
''', re.X | re.M)


def tokenize(line):
    out = []
    pos = 0
    n = len(line)
    while pos < n:
        m = _TOK.match(line, pos)
        if not m:
            raise Undecided('cannot tokenize IR: %r' % line[pos:pos + 40])
        pos = m.end()
        k = m.lastgroup
        if k in ('ws', 'comment'):
            continue
        out.append((k, m.group(k)))
    return out


class Toks:
    def __init__(self, toks):
        self.t = toks
        self.i = 0

    def peek(self, k=0):
        j = self.i + k
        return self.t[j] if j < len(self.t) else ('eof', '')

    def next(self):
        x = self.peek()
        self.i += 1
        return x

    def accept(self, val):
        if self.peek()[1] == val:
            self.i += 1
            return True
        return False

    def expect(self, val):
        x = self.next()
        if x[1] != val:
            raise Undecided('IR parse: expected %r, found %r' % (val, x[1]))

    def eof(self):
        return self.i >= len(self.t)


# types: ('void',) ('int',N) ('fp',bits) ('ptr',pointee|None) ('vec',n,el) ('arr',n,el) ('struct',(els),packed)
#        ('named',name) ('fn',ret,(params)) ('label',) ('meta',) ('opaque',)
_FP = {'half': 16, 'bfloat': 16, 'float': 32, 'double': 64, 'x86_fp80': 80, 'fp128': 128, 'ppc_fp128': 128}


def is_type_start(tok):
    k, v = tok
    if k == 'local':
        return True
    if k == 'word':
        return v in _FP or v in ('void', 'ptr', 'label', 'metadata', 'opaque', 'token', 'x86_mmx') or re.match(r'^i\d+$', v)
    return k == 'p' and v in ('<', '{', '[')


def parse_type(ts):
    k, v = ts.next()
    if k == 'local':
        t = ('named', v)
    elif k == 'word':
        if v in _FP:
            t = ('fp', _FP[v])
        elif v == 'void':
            t = ('void',)
        elif v == 'ptr':
            t = ('ptr', None)
        elif v == 'label':
            t = ('label',)
        elif v == 'metadata':
            t = ('meta',)
        elif v in ('opaque', 'token', 'x86_mmx'):
            t = ('opaque',)
        elif re.match(r'^i\d+$', v):
            t = ('int', int(v[1:]))
        else:
            raise Undecided('IR parse: unknown type word %r' % v)
    elif (k, v) == ('p', '<'):
        if ts.peek()[1] == '{':
            ts.next()
            els = _type_list(ts, '}')
            ts.expect('>')
            t = ('struct', tuple(els), True)
        else:
            if ts.peek()[1] == 'vscale':
                raise Undecided('scalable vector type')
            n = int(ts.next()[1])
            ts.expect('x')
            el = parse_type(ts)
            ts.expect('>')
            t = ('vec', n, el)
    elif (k, v) == ('p', '{'):
        els = _type_list(ts, '}')
        t = ('struct', tuple(els), False)
    elif (k, v) == ('p', '['):
        n = int(ts.next()[1])
        ts.expect('x')
        el = parse_type(ts)
        ts.expect(']')
        t = ('arr', n, el)
    else:
        raise Undecided('IR parse: type expected, found %r' % v)
    while True:
        p = ts.peek()
        if p[1] == '*':
            ts.next()
            t = ('ptr', t)
        elif p[1] == 'addrspace':
            ts.next()
            ts.expect('(')
            ts.next()
            ts.expect(')')
            if ts.peek()[1] == '*':
                ts.next()
            t = ('ptr', t if t[0] != 'ptr' or t[1] is not None else None)
        elif p[1] == '(':
            ts.next()
            ps = []
            while not ts.accept(')'):
                if ts.peek()[0] == 'dots':
                    ts.next()
                    ps.append(('varargs',))
                else:
                    ps.append(parse_type(ts))
                ts.accept(',')
            t = ('fn', t, tuple(ps))
        else:
            return t


def _type_list(ts, close):
    els = []
    while not ts.accept(close):
        els.append(parse_type(ts))
        ts.accept(',')
    return els


class Layout:
    """x86-64 data layout (e-m:e-i64:64-f80:128-n8:16:32:64-S128)"""

    def __init__(self, named):
        self.named = named

    def resolve(self, t):
        seen = 0
        while t[0] == 'named':
            if t[1] not in self.named:
                raise Undecided('unknown named type %s' % t[1])
            t = self.named[t[1]]
            seen += 1
            if seen > 50:
                raise Undecided('cyclic named type')
        return t

    def size_align(self, t):
        t = self.resolve(t)
        k = t[0]
        if k == 'int':
            n = t[1]
            s = 1
            while s * 8 < n:
                s *= 2
            return s, min(s, 16) if n > 64 else min(s, 8)
        if k == 'fp':
            return {16: (2, 2), 32: (4, 4), 64: (8, 8), 80: (16, 16), 128: (16, 16)}[t[1]]
        if k == 'ptr':
            return 8, 8
        if k == 'vec':
            es, _ = self.size_align(t[2])
            raw = es * t[1]
            s = 1
            while s < raw:
                s *= 2
            return s, s
        if k == 'arr':
            es, ea = self.size_align(t[2])
            return es * t[1], ea
        if k == 'struct':
            off = 0
            al = 1
            for e in t[1]:
                s, a = self.size_align(e)
                if t[2]:
                    a = 1
                off = (off + a - 1) // a * a
                off += s
                al = max(al, a)
            off = (off + al - 1) // al * al
            return off, al
        if k == 'opaque':
            raise Undecided('size of an opaque type')
        raise Undecided('size of type %r' % (t,))

    def size(self, t):
        return self.size_align(t)[0]

    def field_offset(self, t, idx):
        t = self.resolve(t)
        off = 0
        for i, e in enumerate(t[1]):
            s, a = self.size_align(e)
            if t[2]:
                a = 1
            off = (off + a - 1) // a * a
            if i == idx:
                return off, e
            off += s
        raise Undecided('struct index out of range')

    def scalars(self, t, base=0):
        """flatten a type into [(byte offset, scalar type)]"""
        t = self.resolve(t)
        k = t[0]
        if k in ('int', 'fp', 'ptr'):
            return [(base, t)]
        if k == 'vec':
            es = self.size(t[2])
            return [(base + i * es, self.resolve(t[2])) for i in range(t[1])]
        if k == 'arr':
            es = self.size(t[2])
            out = []
            for i in range(t[1]):
                out += self.scalars(t[2], base + i * es)
            return out
        if k == 'struct':
            out = []
            for i in range(len(t[1])):
                o, e = self.field_offset(t, i)
                out += self.scalars(e, base + o)
            return out
        raise Undecided('cannot flatten type %r' % (t,))


def type_str(t):
    k = t[0]
    if k == 'int':
        return 'i%d' % t[1]
    if k == 'fp':
        return {16: 'half', 32: 'f32', 64: 'f64', 80: 'f80', 128: 'f128'}[t[1]]
    if k == 'ptr':
        return 'ptr'
    if k == 'vec':
        return '<%d x %s>' % (t[1], type_str(t[2]))
    if k == 'named':
        return t[1]
    return k


# =====================================================================================================
#  term layer
# =====================================================================================================
_SYMS = {}


def sym(name):
    """the input symbol with that name (`x`, `v[8]`, ...)"""
    s = _SYMS.get(name)
    if s is None:
        s = _SYMS[name] = sp.Symbol(name, real=True)
    return s


def F(name):
    return sp.Function(name)


Sel = sp.Function('Sel')
ALLONES = sp.Symbol('allones_mask', real=True)      # the all-ones bit pattern of a compare mask held in a float lane
BNot = sp.Function('BNot')
BAnd = sp.Function('BAnd')
BOr = sp.Function('BOr')
TRUE = sp.S.true
FALSE = sp.S.false

ORDER_PREDS = {'olt': ('f', '<'), 'ole': ('f', '<='), 'oeq': ('*', '='),
               'slt': ('s', '<'), 'sle': ('s', '<='), 'ult': ('u', '<'), 'ule': ('u', '<='), 'eq': ('*', '=')}
OPAQUE_PREFIXES = ('op_', 'sext', 'zext', 'trunc_', 'uitofp_', 'sitofp_', 'bits_', 'undef_')


def fname(e):
    return e.func.__name__ if isinstance(e, sp.Function) or hasattr(e.func, '__name__') else ''


def is_app(e, name=None):
    if not isinstance(e, sp.core.function.AppliedUndef):
        return False
    return name is None or e.func.__name__ == name


def const_fraction(x):
    return sp.Rational(x.numerator, x.denominator)


def norm(t):
    """canonical form of an atom argument: expanded numerator / expanded denominator"""
    if isinstance(t, (int, Fraction)):
        return sp.Rational(t)
    if t.is_Atom:
        return t
    if t.has(Sel):
        return t
    try:
        n, d = sp.fraction(sp.together(t))
        n = sp.expand(n)
        if d == 1:
            return n
        d = sp.expand(d)
        return n / d
    except Exception:
        return t


def atom(name, *args):
    return F(name)(*[norm(a) if isinstance(a, sp.Basic) else sp.sympify(a) for a in args])


def catom(name, *args):
    """commutative/associative atom: flattened and sorted"""
    flat = []
    for a in args:
        a = norm(a)
        if is_app(a, name):
            flat += list(a.args)
        else:
            flat.append(a)
    flat = sorted(set(flat), key=sp.default_sort_key)
    if len(flat) == 1:
        return flat[0]
    return F(name)(*flat)


def mk_sel(c, a, b):
    if c == TRUE:
        return a
    if c == FALSE:
        return b
    if a == b:
        return a
    if is_app(c, 'BNot'):
        return Sel(c.args[0], b, a)
    return Sel(c, a, b)


# ---- comparison literals ---------------------------------------------------------------------------
def lit(pred, a, b):
    """canonical literal for an LLVM comparison predicate (fcmp: oeq ogt oge olt ole one ord ueq ugt uge ult ule
    une uno; icmp: eq ne sgt sge slt sle ugt uge ult ule), or for the readable aliases '<' '<=' '>' '>=' '==' '!='
    (float order)."""
    alias = {'<': 'olt', '<=': 'ole', '>': 'ogt', '>=': 'oge', '==': 'oeq', '!=': 'one'}
    pred = alias.get(pred, pred)
    a, b = norm(sp.sympify(a)), norm(sp.sympify(b))
    tbl = {
        # float ordered
        'olt': ('olt', a, b, False), 'ogt': ('olt', b, a, False), 'ole': ('ole', a, b, False), 'oge': ('ole', b, a, False),
        'oeq': ('oeq', a, b, False), 'one': ('oeq', a, b, True),
        # float unordered = negation of the complementary ordered predicate
        'ult': ('ole', b, a, True), 'ugt': ('ole', a, b, True), 'ule': ('olt', b, a, True), 'uge': ('olt', a, b, True),
        'ueq': ('oeq', a, b, False), 'une': ('oeq', a, b, True),
    }
    itbl = {
        'eq': ('eq', a, b, False), 'ne': ('eq', a, b, True),
        'slt': ('slt', a, b, False), 'sgt': ('slt', b, a, False), 'sle': ('slt', b, a, True), 'sge': ('slt', a, b, True),
    }
    utbl = {'ult': ('ult', a, b, False), 'ugt': ('ult', b, a, False), 'ule': ('ult', b, a, True), 'uge': ('ult', a, b, True)}
    return tbl, itbl, utbl, pred, a, b


def flit(pred, a, b):
    tbl, _, _, pred, a, b = lit(pred, a, b)
    if pred == 'ord':
        return TRUE     # no-NaN semantics
    if pred == 'uno':
        return FALSE
    if pred in ('true',):
        return TRUE
    if pred in ('false',):
        return FALSE
    if pred not in tbl:
        raise Undecided('fcmp predicate %s' % pred)
    p, x, y, n = tbl[pred]
    return _mk_lit(p, x, y, n)


def ilit(pred, a, b):
    _, itbl, utbl, pred, a, b = lit(pred, a, b)
    if pred in itbl:
        p, x, y, n = itbl[pred]
    elif pred in utbl:
        p, x, y, n = utbl[pred]
    else:
        raise Undecided('icmp predicate %s' % pred)
    return _mk_lit(p, x, y, n)


def _mk_lit(p, x, y, n):
    if p in ('oeq', 'eq'):
        if x == y:
            return FALSE if n else TRUE
        if sp.default_sort_key(x) > sp.default_sort_key(y):
            x, y = y, x
    if x.is_Number and y.is_Number and p in ('olt', 'ole', 'oeq', 'eq', 'slt'):
        v = {'olt': x < y, 'slt': x < y, 'ole': x <= y, 'oeq': x == y, 'eq': x == y}[p]
        v = bool(v)
        return (FALSE if v else TRUE) if n else (TRUE if v else FALSE)
    if x == y:
        v = p in ('ole',)
        return (FALSE if v else TRUE) if n else (TRUE if v else FALSE)
    l = F(p)(x, y)
    return BNot(l) if n else l


def neg(c):
    if c == TRUE:
        return FALSE
    if c == FALSE:
        return TRUE
    if is_app(c, 'BNot'):
        return c.args[0]
    return BNot(c)


def b_and(*cs):
    out = []
    for c in cs:
        if c == FALSE:
            return FALSE
        if c == TRUE:
            continue
        if is_app(c, 'BAnd'):
            out += list(c.args)
        else:
            out.append(c)
    out = sorted(set(out), key=sp.default_sort_key)
    for c in out:
        if neg(c) in out:
            return FALSE
    if not out:
        return TRUE
    return out[0] if len(out) == 1 else BAnd(*out)


def b_or(*cs):
    return neg(b_and(*[neg(c) for c in cs])) if False else _b_or(cs)


def _b_or(cs):
    out = []
    for c in cs:
        if c == TRUE:
            return TRUE
        if c == FALSE:
            continue
        if is_app(c, 'BOr'):
            out += list(c.args)
        else:
            out.append(c)
    out = sorted(set(out), key=sp.default_sort_key)
    for c in out:
        if neg(c) in out:
            return TRUE
    if not out:
        return FALSE
    return out[0] if len(out) == 1 else BOr(*out)


def is_literal(c):
    if is_app(c, 'BNot'):
        c = c.args[0]
    return isinstance(c, sp.core.function.AppliedUndef) and c.func.__name__ not in ('BAnd', 'BOr', 'BNot')


def first_literal(c):
    """an atomic comparison inside a condition formula"""
    if c in (TRUE, FALSE):
        return None
    if is_app(c, 'BNot'):
        return first_literal(c.args[0])
    if is_app(c, 'BAnd') or is_app(c, 'BOr'):
        for a in c.args:
            l = first_literal(a)
            if l is not None:
                return l
        return None
    return c


def subst_lit(e, l, val, memo=None):
    """replace the atomic comparison l by the truth value val everywhere in e and simplify Sel / B* nodes"""
    if memo is None:
        memo = {}
    k = e
    if k in memo:
        return memo[k]
    if e == l:
        r = TRUE if val else FALSE
    elif not isinstance(e, sp.Basic) or e.is_Atom or not e.has(l):
        r = e
    else:
        args = [subst_lit(a, l, val, memo) for a in e.args]
        if is_app(e, 'Sel'):
            r = mk_sel(args[0], args[1], args[2])
        elif is_app(e, 'BNot'):
            r = neg(args[0])
        elif is_app(e, 'BAnd'):
            r = b_and(*args)
        elif is_app(e, 'BOr'):
            r = _b_or(args)
        elif isinstance(e, sp.core.function.AppliedUndef) and e.func.__name__ in ORDER_PREDS and len(args) == 2:
            r = _mk_lit(e.func.__name__, norm(args[0]), norm(args[1]), False)
        elif isinstance(e, sp.core.function.AppliedUndef):
            r = fold_atom(e.func.__name__, [norm(a) for a in args])
            if r is None:
                r = e.func(*[norm(a) for a in args])
        else:
            r = e.func(*args)
    memo[k] = r
    return r


def fold_atom(name, args):
    """value of a listed function at trivially constant arguments (pow(0, c) = 0 and pow(1, c) = 1 for a constant c > 0,
    fabs / round / floor / ceil / sqrt of 0 or of an integer), else None"""
    if name == 'pow' and len(args) == 2 and args[1].is_Number and args[1] > 0 and args[0] in (0, 1):
        return args[0]
    if name in ('round', 'floor', 'ceil', 'rint', 'ftrunc') and len(args) == 1 and args[0].is_Integer:
        return args[0]
    if name == 'fabs' and len(args) == 1 and args[0].is_Number:
        return abs(args[0])
    m = re.match(r'^fpto([us])i(\d+)$', name)
    if m and len(args) == 1 and args[0].is_Integer:
        nb = int(m.group(2))
        lo_, hi_ = (0, 2 ** nb) if m.group(1) == 'u' else (-2 ** (nb - 1), 2 ** (nb - 1))
        if lo_ <= args[0] < hi_:
            return args[0]
    return None


def refold(e):
    """re-evaluate listed functions whose arguments have become constants (after a substitution)"""
    if not isinstance(e, sp.Basic) or not e.atoms(sp.core.function.AppliedUndef):
        return e

    def rb(x):
        if x.is_Atom or not x.args:
            return x
        args = [rb(a) for a in x.args]
        if isinstance(x, sp.core.function.AppliedUndef):
            v = fold_atom(x.func.__name__, [norm(a) for a in args])
            if v is not None:
                return v
        return x.func(*args)
    return rb(e)


def pick_literal(t):
    """a Sel-free atomic comparison on which some Sel of t (possibly nested in a condition) depends"""
    s = find_sel(t)
    if s is None:
        return None
    for _ in range(100):
        l = first_literal(s.args[0])
        if l is None:
            raise Undecided('select on a non-comparison condition %s' % s.args[0])
        if not l.has(Sel):
            return l
        s = find_sel(l)
    raise Undecided('select nesting too deep')


def find_sel(e):
    if not isinstance(e, sp.Basic) or not e.has(Sel):
        return None
    for s in sp.preorder_traversal(e):
        if is_app(s, 'Sel'):
            return s
    return None


def cases(term, guard=(), assume=(), limit=MAX_CASES):
    """expand Sel nodes: [(guard tuple of literals, Sel-free term)]; guards refuted by `consistent` are pruned"""
    out = []
    budget = [limit]

    def rec(t, g):
        budget[0] -= 1
        if budget[0] < 0:
            raise Undecided('more than %d select cases' % limit)
        s = find_sel(t)
        if s is None:
            out.append((tuple(g), t))
            return
        l = pick_literal(t)
        for val in (True, False):
            ll = l if val else neg(l)
            g2 = list(g) + [ll]
            if not consistent(g2 + list(assume)):
                continue
            rec(subst_lit(t, l, val), g2)

    for g0, t0 in split_guard(list(guard), term, assume):
        rec(t0, g0)
    return out


def split_guard(guard, term, assume=()):
    """a guard whose literals contain Sel nodes in their operands (a branch on a value that is itself a select) is split on
    the inner conditions, so that every literal is Sel-free: [(guard, term)] with the same substitutions applied to the term"""
    res = []
    work = [(list(guard), term)]
    steps = 0
    while work:
        g, t = work.pop()
        steps += 1
        if steps > MAX_CASES:
            raise Undecided('guard with too many nested select cases')
        g = [x for x in g if x != TRUE]
        if any(x == FALSE for x in g):
            continue
        bad = [x for x in g if isinstance(x, sp.Basic) and x.has(Sel)]
        if not bad:
            if consistent(g + list(assume)):
                res.append((g, t))
            continue
        l = pick_literal(bad[0])
        for val in (True, False):
            ll = l if val else neg(l)
            g2 = [subst_lit(x, l, val) for x in g] + [ll]
            work.append((g2, subst_lit(t, l, val) if isinstance(t, sp.Basic) else t))
    return res


def guard_cases(cond, guard=(), assume=()):
    """DNF-like expansion of a condition formula into consistent literal lists making it true"""
    out = []

    def rec(c, g):
        if c == FALSE:
            return
        if c == TRUE:
            out.append(tuple(g))
            return
        l = first_literal(c)
        for val in (True, False):
            ll = l if val else neg(l)
            g2 = list(g) + [ll]
            if consistent(g2 + list(assume)):
                rec(subst_lit(c, l, val), g2)

    rec(cond, list(guard))
    return out


# ---- order theory ------------------------------------------------------------------------------------
def _lit_parts(l):
    n = False
    if is_app(l, 'BNot'):
        n = True
        l = l.args[0]
    if not isinstance(l, sp.core.function.AppliedUndef):
        return None
    p = l.func.__name__
    if p not in ORDER_PREDS or len(l.args) != 2:
        return None
    return p, l.args[0], l.args[1], n


_DIFF = {}
_CONS = {}


def _diff(x, y):
    """expand(y - x), memoised"""
    k = (x, y)
    d = _DIFF.get(k)
    if d is None:
        d = _DIFF[k] = sp.expand(y - x)
    return d


def consistent(literals):
    key = frozenset(literals)
    r = _CONS.get(key)
    if r is None:
        if len(_CONS) > 200000:
            _CONS.clear()
        r = _CONS[key] = _consistent(literals)
    return r


def _consistent(literals):
    """False only if the conjunction is refuted (l and not l; a cycle with a strict edge in the order graph;
    a != b with a <= b <= a; for integers also x < y => x <= y - 1).  Float comparisons are read over the reals (no NaN)."""
    lits = [l for l in literals if l != TRUE]
    if any(l == FALSE for l in lits):
        return False
    s = set(lits)
    for l in s:
        if neg(l) in s:
            return False
    s_nodes, s_R = {}, None          # closure of the signed domain, used to relate it to the unsigned one
    for dom in ('f', 's', 'u'):
        nodes = {}
        le = set()
        lt = set()
        ne = set()

        def nid(x):
            return nodes.setdefault(x, len(nodes))

        used = False
        for l in s:
            pp = _lit_parts(l)
            if pp is None:
                continue
            p, a, b, n = pp
            d, rel = ORDER_PREDS[p]
            if d not in ('*', dom):
                continue
            used = True
            ia, ib = nid(a), nid(b)
            if rel == '<':
                if n:
                    le.add((ib, ia))
                else:
                    lt.add((ia, ib))
            elif rel == '<=':
                if n:
                    lt.add((ib, ia))
                else:
                    le.add((ia, ib))
            else:
                if n:
                    ne.add((ia, ib))
                else:
                    le.add((ia, ib))
                    le.add((ib, ia))
        if not used:
            continue
        if dom == 's':
            nid(sp.Integer(0))          # reference point for the sign of the other nodes
        if dom == 'u' and s_R is not None:
            # a value that is negative as a signed number is, read as unsigned, above every non-negative one; among
            # non-negative values the two orders coincide
            zi = s_nodes.get(sp.Integer(0))

            def sgn(x):
                if x.is_Number:
                    return 'nonneg' if x >= 0 else 'neg'
                i_ = s_nodes.get(x)
                if i_ is None or zi is None:
                    return None
                if s_R[i_][zi] == 1:
                    return 'neg'
                if s_R[zi][i_] != 9:
                    return 'nonneg'
                return None
            items_u = list(nodes.items())
            for x, i in items_u:
                for y, j in items_u:
                    if i == j:
                        continue
                    sx_, sy_ = sgn(x), sgn(y)
                    if sx_ == 'neg' and sy_ == 'nonneg' and not x.is_Number:
                        lt.add((j, i))
                    if sx_ == 'nonneg' and sy_ == 'nonneg' and x in s_nodes and y in s_nodes:
                        r_ = s_R[s_nodes[x]][s_nodes[y]]
                        if r_ == 1:
                            lt.add((i, j))
                        elif r_ == 0:
                            le.add((i, j))
        # numeric constants are ordered among themselves (unsigned domain: only non-negative ones)
        consts = [(x, i) for x, i in nodes.items() if x.is_Number and (dom != 'u' or x >= 0)]
        for x, i in consts:
            for y, j in consts:
                if x < y:
                    lt.add((i, j))
        # nodes that differ by a numeric constant (float domain = reals)
        if dom == 'f':
            items = list(nodes.items())
            for x, i in items:
                for y, j in items:
                    if i < j and not (x.is_Number and y.is_Number):
                        dlt = _diff(x, y)
                        if dlt.is_Number:
                            if dlt > 0:
                                lt.add((i, j))
                            elif dlt < 0:
                                lt.add((j, i))
            # negation reverses the order over the reals: a < b  <=>  -b < -a  (`D < -c` and `c < -D` are the same fact)
            negmap = {}
            for x, i in items:
                for y, j in items:
                    if i < j and i not in negmap and j not in negmap:
                        try:
                            if sp.expand(x + y) == 0:
                                negmap[i] = j
                                negmap[j] = i
                        except Exception:      # noqa
                            pass
            if negmap:
                for (i, j) in list(lt):
                    if i in negmap and j in negmap:
                        lt.add((negmap[j], negmap[i]))
                for (i, j) in list(le):
                    if i in negmap and j in negmap:
                        le.add((negmap[j], negmap[i]))
                for (i, j) in list(ne):
                    if i in negmap and j in negmap:
                        ne.add((negmap[i], negmap[j]))
        # integers are discrete: x < y implies x <= y - 1 and x + 1 <= y (neither y - 1 nor x + 1 can wrap when x < y)
        if dom in ('s', 'u') and lt:
            items = list(nodes.items())
            one = {}
            for x, i in items:
                for y, j in items:
                    if i != j:
                        if _diff(x, y) == 1:
                            one[(i, j)] = True          # node j = node i + 1
            if one:
                for (i, j) in list(lt):
                    for (k, k1) in one:
                        if k1 == j:
                            le.add((i, k))              # i < j = k + 1  =>  i <= k
                        if k == i:
                            le.add((k1, j))             # k1 = i + 1, i < j  =>  k1 <= j
        n = len(nodes)
        INF = 9
        # reach[i][j] = 0 (i<=j), 1 (i<j), INF none
        R = [[INF] * n for _ in range(n)]
        for i in range(n):
            R[i][i] = 0
        for i, j in le:
            R[i][j] = min(R[i][j], 0) if R[i][j] != 1 else 1
        for i, j in lt:
            R[i][j] = 1
        for k in range(n):
            for i in range(n):
                if R[i][k] == INF:
                    continue
                for j in range(n):
                    if R[k][j] == INF:
                        continue
                    v = 1 if (R[i][k] == 1 or R[k][j] == 1) else 0
                    if R[i][j] == INF or v > R[i][j]:
                        R[i][j] = v
        for i in range(n):
            if R[i][i] == 1:
                return False
        if dom == 's':
            s_nodes, s_R = dict(nodes), R
        for i, j in ne:
            if i == j or (R[i][j] != INF and R[j][i] != INF):
                if i == j or (R[i][j] == 0 and R[j][i] == 0):
                    return False
    return True


def in_order_vocabulary(literals):
    """True if every literal is a comparison the order theory of `consistent` interprets, with Sel-free operands that are
    not bit-level atoms: only then is a guard that `consistent` accepts really satisfiable (needed before a mismatch
    under that guard may be reported as a violation rather than as undecided)"""
    for l in literals:
        if l in (TRUE, FALSE):
            continue
        pp = _lit_parts(l)
        if pp is None:
            return False
        for x in (pp[1], pp[2]):
            if x.has(Sel) or any(re.match(r'^(and|or|xor|op_|bits_|ashr)', a.func.__name__) for a in all_atoms(x)):
                return False
    return True


def implies(literals, goal):
    """sound: True only if literals & not goal is refuted"""
    return not consistent(list(literals) + [neg(goal)])


# ---- identities --------------------------------------------------------------------------------------
def _trig_reduce(num):
    sins = [a for a in num.atoms(sp.core.function.AppliedUndef) if a.func.__name__ == 'Sin']
    for s in sorted(sins, key=sp.default_sort_key):
        c = F('Cos')(*s.args)
        try:
            num = sp.Poly(num, s).rem(sp.Poly(s ** 2 + c ** 2 - 1, s)).as_expr()
        except sp.PolynomialError:
            return num
        num = sp.expand(num)
    return num


def _trig_consts(t):
    """sin 0 = 0, cos 0 = 1, cos(acos x) = x (the latter on acos's domain [-1, 1]; outside it both are NaN)"""
    rep = {}
    for a in t.atoms(sp.core.function.AppliedUndef):
        nm = a.func.__name__
        if nm in ('Sin', 'Cos') and len(a.args) == 1:
            x = a.args[0]
            if x == 0:
                rep[a] = sp.Integer(0) if nm == 'Sin' else sp.Integer(1)
            elif nm == 'Cos' and isinstance(x, sp.core.function.AppliedUndef) and x.func.__name__ == 'acos' and len(x.args) == 1:
                rep[a] = x.args[0]
    return t.xreplace(rep) if rep else t


def is_zero(t, trig=False):
    """exact: t == 0 as a rational function of its symbols and atoms (Sel-free)"""
    if not isinstance(t, sp.Basic):
        return t == 0
    if t.has(Sel):
        return all(is_zero(x, trig) for _, x in cases(t))
    if trig:
        t = _trig_consts(t)
    t2 = sp.expand(t)
    if t2 == 0:
        return True
    n, d = sp.fraction(sp.together(t2))
    n = sp.expand(n)
    if n == 0:
        return True
    if trig:
        n = _trig_reduce(n)
        if n == 0:
            return True
    return False


def equal(a, b, trig=False):
    """exact identity of two terms (Sel nodes are case-split jointly)"""
    return is_zero(sp.sympify(a) - sp.sympify(b), trig)


def implied_equalities(literals):
    """[(x, y)] pairs of terms occurring in the comparison literals that the conjunction forces to be equal
    (x <= y and y <= x, or an explicit equality)"""
    lits = [l for l in literals if l not in (TRUE, FALSE)]
    out = []
    for dom_ne, preds in ((lambda a, b: flit('one', a, b), ('olt', 'ole', 'oeq')), (lambda a, b: ilit('ne', a, b), ('slt', 'sle', 'ult', 'ule', 'eq'))):
        nodes = []
        for l in lits:
            pp = _lit_parts(l)
            if pp is None or pp[0] not in preds:
                continue
            for x in (pp[1], pp[2]):
                if x not in nodes:
                    nodes.append(x)
        for i in range(len(nodes)):
            for j in range(i + 1, len(nodes)):
                x, y = nodes[i], nodes[j]
                if x.is_Number and y.is_Number:
                    continue
                if not consistent(lits + [dom_ne(x, y)]):
                    out.append((x, y))
    return out


def equal_under(guard, a, b, trig=False):
    """a == b for all values satisfying the guard: exact identity after substituting the equalities the guard forces"""
    d = sp.sympify(a) - sp.sympify(b)
    if is_zero(d, trig):
        return True
    eqs = implied_equalities(guard)
    if not eqs:
        return False
    sub = {}
    for x, y in eqs:
        x, y = x.xreplace(sub), y.xreplace(sub)
        if x == y:
            continue
        if y.is_Symbol and not x.has(y):
            sub = {k: v.xreplace({y: x}) for k, v in sub.items()}
            sub[y] = x
        elif x.is_Symbol and not y.has(x):
            sub = {k: v.xreplace({x: y}) for k, v in sub.items()}
            sub[x] = y
        else:
            # x - y == 0 with a symbol occurring linearly: solve for it
            e = sp.expand(x - y)
            for z in sorted(e.free_symbols, key=sp.default_sort_key):
                c = e.coeff(z)
                if c != 0 and c.is_Number and not (e - c * z).has(z):
                    val = -(e - c * z) / c
                    sub = {k: v.xreplace({z: val}) for k, v in sub.items()}
                    sub[z] = val
                    break
    return is_zero(refold(d.xreplace(sub)), trig) if sub else False


def equal_guarded(A, B, assume=(), trig=False):
    """A, B: [(guard, term)] (terms may still contain Sel).  Every pair whose joint guard (plus `assume`) is
    consistent must have identical terms.  -> (True, None) | (False, (guardA, termA, guardB, termB))"""
    A2 = [c for g, t in A for c in cases(t, g, assume)]
    B2 = [c for g, t in B for c in cases(t, g, assume)]
    for ga, ta in A2:
        for gb, tb in B2:
            if not consistent(list(ga) + list(gb) + list(assume)):
                continue
            if not is_zero(ta - tb, trig) and not equal_under(list(ga) + list(gb) + list(assume), ta, tb, trig):
                return False, (ga, ta, gb, tb)
    return True, None


def atoms(t, name=None, prefix=None):
    out = []
    if not isinstance(t, sp.Basic):
        return out
    for a in t.atoms(sp.core.function.AppliedUndef):
        n = a.func.__name__
        if (name is None or n == name) and (prefix is None or n.startswith(prefix)):
            out.append(a)
    return sorted(out, key=sp.default_sort_key)


def all_atoms(t):
    """applied atoms including those nested in arguments"""
    out = set()
    if isinstance(t, sp.Basic):
        for s in sp.preorder_traversal(t):
            if isinstance(s, sp.core.function.AppliedUndef):
                out.add(s)
    return sorted(out, key=sp.default_sort_key)


def opaque_atoms(t):
    return [a for a in all_atoms(t) if a.func.__name__.startswith(OPAQUE_PREFIXES)]


def or_operands(t, name_prefix='or'):
    """operands of a (flattened) commutative bit-op atom, or [t]"""
    if isinstance(t, sp.core.function.AppliedUndef) and re.match(r'^%s\d+$' % name_prefix, t.func.__name__):
        return list(t.args)
    return [t]


def error_bound(t, bounds):
    """rigorous upper bound of |t| where t is a polynomial or a quotient of polynomials in the symbols of
    `bounds` = {symbol: max |value|} (Fractions/Rationals): sum over monomials of |coeff| * prod bound^deg;
    a denominator must have a non-zero constant term c0 and is bounded below by |c0| - (bound of the rest).
    Raises Undecided if t contains any other symbol or atom."""
    n, d = sp.fraction(sp.together(sp.expand(t)))
    gens = sorted(bounds, key=sp.default_sort_key)

    def absbound(p, skip_const=False):
        p = sp.expand(p)
        free = p.free_symbols - set(gens)
        if free or p.atoms(sp.core.function.AppliedUndef):
            raise Undecided('error term depends on %s' % sorted(map(str, free | p.atoms(sp.core.function.AppliedUndef))))
        if not gens or p.is_Number:
            return (sp.Rational(0), p) if skip_const else (abs(p), p)
        P = sp.Poly(p, *gens)
        tot = sp.Rational(0)
        c0 = sp.Rational(0)
        for mon, c in P.terms():
            if not c.is_Rational:
                raise Undecided('non-rational coefficient %s' % c)
            if all(m == 0 for m in mon):
                c0 = c
                if skip_const:
                    continue
            b = abs(c)
            for g, m in zip(gens, mon):
                b *= sp.Rational(bounds[g]) ** m
            tot += b
        return tot, c0

    nb, _ = absbound(n)
    if d == 1:
        return nb
    rest, c0 = absbound(d, skip_const=True)
    lo = abs(c0) - rest
    if lo <= 0:
        raise Undecided('denominator of the error term is not bounded away from zero')
    return nb / lo


# =====================================================================================================
#  module / function / instruction parsing
# =====================================================================================================
BINOPS = {'add', 'sub', 'mul', 'udiv', 'sdiv', 'urem', 'srem', 'shl', 'lshr', 'ashr', 'and', 'or', 'xor',
          'fadd', 'fsub', 'fmul', 'fdiv', 'frem'}
CASTS = {'trunc', 'zext', 'sext', 'fptrunc', 'fpext', 'fptoui', 'fptosi', 'uitofp', 'sitofp', 'ptrtoint', 'inttoptr',
         'bitcast', 'addrspacecast'}
FLAG_WORDS = {'nsw', 'nuw', 'exact', 'nnan', 'ninf', 'nsz', 'arcp', 'contract', 'afn', 'reassoc', 'fast', 'inbounds',
              'volatile', 'atomic'}
PARAM_ATTRS = {'noundef', 'nonnull', 'nocapture', 'readonly', 'writeonly', 'readnone', 'noalias', 'zeroext', 'signext',
               'inreg', 'returned', 'nofree', 'nest', 'immarg', 'swiftself', 'swifterror', 'noreturn', 'nounwind',
               'inalloca', 'preallocated'}
PARAM_ATTRS_ARG = {'align', 'dereferenceable', 'dereferenceable_or_null', 'byval', 'sret', 'byref', 'elementtype'}


class Ins:
    __slots__ = ('res', 'op', 'a', 'text')

    def __init__(self, res, op, a, text):
        self.res, self.op, self.a, self.text = res, op, a, text


def skip_param_attrs(ts):
    while True:
        k, v = ts.peek()
        if k == 'word' and v in PARAM_ATTRS:
            ts.next()
        elif k == 'word' and v in PARAM_ATTRS_ARG:
            ts.next()
            if ts.peek()[1] == '(':
                depth = 0
                while True:
                    x = ts.next()[1]
                    if x == '(':
                        depth += 1
                    elif x == ')':
                        depth -= 1
                        if depth == 0:
                            break
            elif ts.peek()[0] == 'int':
                ts.next()
        else:
            return


def parse_value(ts, ty):
    """-> value AST: ('loc',name) ('glob',name) ('int',n) ('fp',Fraction|'nan'|'inf') ('null',) ('undef',)
    ('zero',) ('bool',b) ('agg',[(ty,val)]) ('cexpr',op,...)"""
    k, v = ts.next()
    if k == 'local':
        return ('loc', v)
    if k == 'glob':
        return ('glob', v)
    if k == 'int':
        if ty is not None and ty[0] == 'fp':
            return ('fp', Fraction(int(v)))
        return ('int', int(v))
    if k == 'flt':
        return ('fp', Fraction(v))
    if k == 'hex':
        if v[2] in 'KLMHR':
            raise Undecided('non-double hex float constant %s' % v)
        bits = int(v[2:], 16)
        d = struct.unpack('>d', struct.pack('>Q', bits))[0]
        if d != d:
            return ('fp', 'nan')
        if d in (float('inf'), float('-inf')):
            return ('fp', 'inf' if d > 0 else '-inf')
        return ('fp', Fraction(d))
    if k == 'word':
        if v in ('true', 'false'):
            return ('bool', v == 'true')
        if v == 'null':
            return ('null',)
        if v in ('undef', 'poison'):
            return ('undef',)
        if v == 'zeroinitializer':
            return ('zero',)
        if v in ('getelementptr', 'bitcast', 'inttoptr', 'ptrtoint', 'addrspacecast', 'trunc', 'zext', 'sext'):
            while ts.peek()[0] == 'word' and ts.peek()[1] in FLAG_WORDS:
                ts.next()
            ts.expect('(')
            if v == 'getelementptr':
                sty = parse_type(ts)
                ts.expect(',')
                pty = parse_type(ts)
                pv = parse_value(ts, pty)
                idx = []
                while ts.accept(','):
                    ts.accept('inrange')
                    ity = parse_type(ts)
                    idx.append((ity, parse_value(ts, ity)))
                ts.expect(')')
                return ('cexpr', 'gep', sty, (pty, pv), idx)
            fty = parse_type(ts)
            fv = parse_value(ts, fty)
            ts.expect('to')
            tty = parse_type(ts)
            ts.expect(')')
            return ('cexpr', v, (fty, fv), tty)
        raise Undecided('IR parse: constant %r' % v)
    if k == 'cstr':
        return ('cstr', v)
    if k == 'meta':
        if ts.peek()[1] == '(' or ts.peek()[1] == '{':
            raise Undecided('inline metadata operand')
        return ('meta', v)
    if k == 'p' and v in ('<', '{', '['):
        close = {'<': '>', '{': '}', '[': ']'}[v]
        packed = False
        if v == '<' and ts.peek()[1] == '{':
            ts.next()
            close = '}'
            packed = True
        els = []
        while not ts.accept(close):
            ety = parse_type(ts)
            els.append((ety, parse_value(ts, ety)))
            ts.accept(',')
        if packed:
            ts.expect('>')
        return ('agg', els)
    raise Undecided('IR parse: value expected, found %r' % v)


def parse_tv(ts):
    ty = parse_type(ts)
    skip_param_attrs(ts)
    return ty, parse_value(ts, ty)


def parse_instruction(text):
    ts = Toks(tokenize(text))
    res = None
    if ts.peek()[0] == 'local' and ts.peek(1)[1] == '=':
        res = ts.next()[1]
        ts.next()
    op = ts.next()[1]
    if op in ('tail', 'musttail', 'notail'):
        op = ts.next()[1]
    a = {}
    if op in BINOPS:
        fl = set()
        while ts.peek()[0] == 'word' and ts.peek()[1] in FLAG_WORDS:
            fl.add(ts.next()[1])
        ty = parse_type(ts)
        x = parse_value(ts, ty)
        ts.expect(',')
        y = parse_value(ts, ty)
        a = dict(flags=fl, ty=ty, x=x, y=y)
    elif op == 'fneg' or op == 'freeze':
        while ts.peek()[0] == 'word' and ts.peek()[1] in FLAG_WORDS:
            ts.next()
        ty = parse_type(ts)
        a = dict(ty=ty, x=parse_value(ts, ty))
    elif op in ('icmp', 'fcmp'):
        while ts.peek()[0] == 'word' and ts.peek()[1] in FLAG_WORDS:
            ts.next()
        pred = ts.next()[1]
        ty = parse_type(ts)
        x = parse_value(ts, ty)
        ts.expect(',')
        y = parse_value(ts, ty)
        a = dict(pred=pred, ty=ty, x=x, y=y)
    elif op == 'select':
        while ts.peek()[0] == 'word' and ts.peek()[1] in FLAG_WORDS:
            ts.next()
        c = parse_tv(ts)
        ts.expect(',')
        x = parse_tv(ts)
        ts.expect(',')
        y = parse_tv(ts)
        a = dict(c=c, x=x, y=y)
    elif op in CASTS:
        fty = parse_type(ts)
        v = parse_value(ts, fty)
        ts.expect('to')
        a = dict(fty=fty, x=v, tty=parse_type(ts))
    elif op == 'load':
        while ts.peek()[1] in ('volatile', 'atomic'):
            raise Undecided('volatile/atomic load')
        ty = parse_type(ts)
        ts.expect(',')
        a = dict(ty=ty, p=parse_tv(ts))
    elif op == 'store':
        if ts.peek()[1] in ('volatile', 'atomic'):
            raise Undecided('volatile/atomic store')
        v = parse_tv(ts)
        ts.expect(',')
        a = dict(v=v, p=parse_tv(ts))
    elif op == 'getelementptr':
        ts.accept('inbounds')
        sty = parse_type(ts)
        ts.expect(',')
        p = parse_tv(ts)
        idx = []
        while ts.accept(','):
            idx.append(parse_tv(ts))
        a = dict(sty=sty, p=p, idx=idx)
    elif op == 'alloca':
        ts.accept('inalloca')
        ty = parse_type(ts)
        cnt = None
        if ts.accept(','):
            if ts.peek()[1] != 'align' and ts.peek()[1] != 'addrspace':
                cnt = parse_tv(ts)
        a = dict(ty=ty, cnt=cnt)
    elif op == 'phi':
        while ts.peek()[0] == 'word' and ts.peek()[1] in FLAG_WORDS:
            ts.next()
        ty = parse_type(ts)
        inc = []
        while True:
            ts.expect('[')
            v = parse_value(ts, ty)
            ts.expect(',')
            b = ts.next()[1]
            ts.expect(']')
            inc.append((v, b))
            if not ts.accept(','):
                break
        a = dict(ty=ty, inc=inc)
    elif op == 'br':
        if ts.peek()[1] == 'label':
            ts.next()
            a = dict(dest=ts.next()[1])
        else:
            c = parse_tv(ts)
            ts.expect(',')
            ts.expect('label')
            t = ts.next()[1]
            ts.expect(',')
            ts.expect('label')
            f = ts.next()[1]
            a = dict(c=c, t=t, f=f)
    elif op == 'switch':
        v = parse_tv(ts)
        ts.expect(',')
        ts.expect('label')
        d = ts.next()[1]
        ts.expect('[')
        cs = []
        while not ts.accept(']'):
            cv = parse_tv(ts)
            ts.expect(',')
            ts.expect('label')
            cs.append((cv, ts.next()[1]))
        a = dict(v=v, default=d, cases=cs)
    elif op == 'ret':
        if ts.peek()[1] == 'void':
            a = dict(v=None)
        else:
            a = dict(v=parse_tv(ts))
    elif op == 'unreachable':
        pass
    elif op == 'call':
        while ts.peek()[0] == 'word' and (ts.peek()[1] in FLAG_WORDS or ts.peek()[1] in PARAM_ATTRS or
                                           ts.peek()[1] in ('fastcc', 'ccc', 'coldcc') or ts.peek()[1] in PARAM_ATTRS_ARG):
            if ts.peek()[1] in PARAM_ATTRS_ARG:
                skip_param_attrs(ts)
            else:
                ts.next()
        rty = parse_type(ts)
        if rty[0] == 'fn':
            rty = rty[1]
        callee = parse_value(ts, None)
        ts.expect('(')
        args = []
        while not ts.accept(')'):
            args.append(parse_tv(ts))
            ts.accept(',')
        a = dict(rty=rty, callee=callee, args=args)
    elif op in ('extractelement',):
        v = parse_tv(ts)
        ts.expect(',')
        a = dict(v=v, i=parse_tv(ts))
    elif op == 'insertelement':
        v = parse_tv(ts)
        ts.expect(',')
        e = parse_tv(ts)
        ts.expect(',')
        a = dict(v=v, e=e, i=parse_tv(ts))
    elif op == 'shufflevector':
        x = parse_tv(ts)
        ts.expect(',')
        y = parse_tv(ts)
        ts.expect(',')
        a = dict(x=x, y=y, m=parse_tv(ts))
    elif op == 'extractvalue':
        v = parse_tv(ts)
        idx = []
        while ts.accept(','):
            if ts.peek()[0] != 'int':
                break
            idx.append(int(ts.next()[1]))
        a = dict(v=v, idx=idx)
    elif op == 'insertvalue':
        v = parse_tv(ts)
        ts.expect(',')
        e = parse_tv(ts)
        idx = []
        while ts.accept(','):
            if ts.peek()[0] != 'int':
                break
            idx.append(int(ts.next()[1]))
        a = dict(v=v, e=e, idx=idx)
    else:
        a = None      # unmodelled instruction: reported when (and only when) a path executes it
    return Ins(res, op, a, text.strip())


class Block:
    def __init__(self, name):
        self.name = name
        self.lines = []
        self._ins = None

    @property
    def ins(self):
        if self._ins is None:
            self._ins = [parse_instruction(l) for l in self.lines]
        return self._ins


class Module:
    """parsed LLVM IR text: named types, globals, defined functions"""

    def __init__(self, text):
        self.named = {}
        self.layout = Layout(self.named)
        self.globals = {}      # name -> (is_constant, type, init value AST | None)
        self.functions = {}
        self.unparsed = []     # (header, reason) of defined functions whose header could not be parsed
        self.declared = set()
        self._parse(text)

    def function(self, name):
        """the defined function `name` (without '@'); KeyError if absent"""
        return self.functions[name]

    def _parse(self, text):
        lines = text.splitlines()
        i = 0
        n = len(lines)
        while i < n:
            l = lines[i]
            i += 1
            if not l or l[0] in ';!' or l.startswith(('source_filename', 'target ', 'attributes ', '$')):
                continue
            if l[0] == '%' and ' = type ' in l:
                ts = Toks(tokenize(l))
                name = ts.next()[1]
                ts.expect('=')
                ts.expect('type')
                if ts.peek()[1] == 'opaque':
                    self.named[name] = ('opaque',)
                else:
                    self.named[name] = parse_type(ts)
                continue
            if l[0] == '@':
                try:
                    self._parse_global(l)
                except Undecided:
                    pass
                continue
            if l.startswith('declare '):
                m = re.search(r'@("(?:[^"\\]|\\.)*"|[-a-zA-Z$._0-9]+)\s*\(', l)
                if m:
                    self.declared.add(m.group(1).strip('"'))
                continue
            if l.startswith('define '):
                body = []
                while i < n and lines[i] != '}':
                    body.append(lines[i])
                    i += 1
                i += 1
                try:
                    f = Function(self, l, body)
                    self.functions[f.name] = f
                except Undecided as e:
                    self.unparsed.append((l[:120], str(e)))
                continue

    def _parse_global(self, l):
        ts = Toks(tokenize(l))
        name = ts.next()[1]
        ts.expect('=')
        const = None
        while not ts.eof():
            k, v = ts.peek()
            if v in ('global', 'constant'):
                const = (v == 'constant')
                ts.next()
                break
            ts.next()
        if const is None:
            return
        ty = parse_type(ts)
        init = None
        if not ts.eof() and ts.peek()[1] != ',':
            init = parse_value(ts, ty)
        self.globals[name[1:].strip('"')] = (const, ty, init)


class Function:
    def __init__(self, mod, header, body):
        self.mod = mod
        ts = Toks(tokenize(header))
        ts.expect('define')
        while not is_type_start(ts.peek()) or (ts.peek()[0] == 'word' and ts.peek()[1] in PARAM_ATTRS):
            if ts.peek()[1] in PARAM_ATTRS_ARG:
                skip_param_attrs(ts)
            else:
                ts.next()
        self.rty = parse_type(ts)
        if self.rty[0] == 'fn':
            raise Undecided('function header parse')
        self.name = ts.next()[1][1:].strip('"')
        ts.expect('(')
        self.params = []
        k = 0
        while not ts.accept(')'):
            if ts.peek()[0] == 'dots':
                ts.next()
                continue
            ty = parse_type(ts)
            skip_param_attrs(ts)
            if ts.peek()[0] == 'local':
                nm = ts.next()[1]
            else:
                nm = '%' + str(k)
            k += 1
            self.params.append((ty, nm))
            ts.accept(',')
        self.blocks = {}
        self.order = []
        cur = None
        for l in body:
            s = l.strip()
            if not s or s[0] == ';':
                continue
            m = re.match(r'^("(?:[^"\\]|\\.)*"|[-a-zA-Z$._0-9]+):', l)
            if m and not l.startswith(' '):
                cur = Block('%' + m.group(1))
                self.blocks[cur.name] = cur
                self.order.append(cur.name)
                continue
            if cur is None:
                cur = Block('%' + str(len(self.params)))
                self.blocks[cur.name] = cur
                self.order.append(cur.name)
            if cur.lines and re.match(r'^\s*switch\b', cur.lines[-1]) and cur.lines[-1].count('[') > cur.lines[-1].count(']'):
                cur.lines[-1] = cur.lines[-1].rstrip() + ' ' + s        # the case list of a switch is printed one case per line
                continue
            cur.lines.append(l)
        self._loopfree = None

    # ---- CFG checks
    def successors(self, b):
        t = self.blocks[b].ins[-1]
        if t.op == 'br':
            return [t.a['dest']] if 'dest' in t.a else [t.a['t'], t.a['f']]
        if t.op == 'switch':
            return [t.a['default']] + [c[1] for c in t.a['cases']]
        if t.op in ('ret', 'unreachable'):
            return []
        raise Undecided('terminator `%s` in %s' % (t.op, self.name))

    def check_loop_free(self):
        if self._loopfree is None:
            color = {}
            entry = self.order[0]
            stack = [(entry, iter(self.successors(entry)))]
            color[entry] = 1
            res = True
            while stack and res:
                b, it = stack[-1]
                adv = False
                for s in it:
                    if color.get(s) == 1:
                        res = 'back edge %s -> %s (loop)' % (b, s)
                        break
                    if s not in color:
                        color[s] = 1
                        stack.append((s, iter(self.successors(s))))
                        adv = True
                        break
                if res is not True:
                    break
                if not adv:
                    color[b] = 2
                    stack.pop()
            self._loopfree = res
        if self._loopfree is not True:
            raise Undecided('%s: %s' % (self.name, self._loopfree))

    def summary(self, **opts):
        """symbolic summary; options:
             unroll=True     execute loops symbolically (a loop whose exit tests become constants is thereby unrolled;
                             more than max_unroll=64 visits of a block on one path => Undecided); False: any back edge => Undecided
             pointers=None   {input location: (global name, byte offset)}: a pointer-typed input that is known to point into a
                             global, e.g. {'a[0]': ('_ZTV...', 16)} declares the dynamic type of *a; virtual calls through it then
                             resolve to the functions listed in the (constant) vtable and are inlined like direct calls
             rounding=False  multiply every rounded fp operation by (1 + _d<k>)
             nonneg=()       names of input symbols (or a predicate on the name) known to be >= 0
             fits=None       callable(term, from_bits, to_bits, signed) -> reason string | None: accept a narrowing
             inputs=None     callable(name, type_str) -> term | None: substitute an input (compose drivers)
             max_unroll=64   visits of one block on one path
             cut_loops=False True: paths reaching the limit are set aside in Summary.cut instead of Undecided (see Interp)
        """
        return Interp(self.mod, opts).run(self)


# =====================================================================================================
#  symbolic values and the byte-addressed store
# =====================================================================================================
class IntV:
    """integer of `bits` bits: `term` denotes a residue mod 2^bits.  sx / ux: the polynomial's integer value equals
    the signed / unsigned value of the residue; mag: |value| < 2^mag when sx or ux holds (None = unknown).
    org: how the value was built, for the idioms LLVM uses to pack / narrow integers:
         ('shl', x, k) | ('zext', x) | ('parts', [(byte offset, scalar value)])  (little-endian pieces of a packed word)"""
    __slots__ = ('bits', 'term', 'sx', 'ux', 'mag', 'org')
    kind = 'i'

    def __init__(self, bits, term, sx=False, ux=False, mag=None, org=None):
        self.bits, self.term, self.sx, self.ux, self.org = bits, term, sx, ux, org
        self.mag = mag if (sx or ux) else None

    @property
    def shl(self):
        return (self.org[1], self.org[2]) if self.org is not None and self.org[0] == 'shl' else None

    def __repr__(self):
        return 'i%d:%s%s%s' % (self.bits, self.term, ' sx' if self.sx else '', ' ux' if self.ux else '')


class FpV:
    __slots__ = ('bits', 'term')
    kind = 'f'

    def __init__(self, bits, term):
        self.bits, self.term = bits, term

    def __repr__(self):
        return 'f%d:%s' % (self.bits, self.term)


class BoolV:
    __slots__ = ('cond',)
    kind = 'b'
    bits = 1

    def __init__(self, cond):
        self.cond = cond

    def __repr__(self):
        return 'i1:%s' % (self.cond,)


class PtrV:
    __slots__ = ('base', 'off')
    kind = 'p'

    def __init__(self, base, off):
        self.base, self.off = base, off

    def __repr__(self):
        return 'ptr:%s+%s' % (self.base, self.off)


class AggV:
    __slots__ = ('elems',)
    kind = 'a'

    def __init__(self, elems):
        self.elems = list(elems)

    def __repr__(self):
        return 'agg%s' % (self.elems,)


class UndefV:
    kind = 'u'

    def __repr__(self):
        return 'undef'


UNDEF = UndefV()


def float_from_bits(c, bits):
    """exact rational value of the IEEE float with that bit pattern (None for inf / NaN)"""
    c &= (1 << bits) - 1
    try:
        d = struct.unpack('>f', struct.pack('>I', c))[0] if bits == 32 else struct.unpack('>d', struct.pack('>Q', c))[0]
    except struct.error:
        return None
    if d != d or d in (float('inf'), float('-inf')):
        return None
    return const_fraction(Fraction(d))


def const_int(bits, c):
    if bits == 1:
        return BoolV(TRUE if c & 1 else FALSE)
    lo, hi = -(1 << (bits - 1)), (1 << (bits - 1))
    c2 = c
    if c2 >= hi:           # printed unsigned
        c2 -= 1 << bits
    return IntV(bits, sp.Integer(c2), sx=True, ux=(c2 >= 0), mag=max(abs(c2).bit_length(), 0 if c2 >= 0 else (abs(c2) - 1).bit_length()))


def base_name(base):
    k = base[0]
    if k == 'arg':
        return base[1].lstrip('%').strip('"')
    if k == 'sym':
        return base[1]
    if k == 'global':
        return '@' + base[1]
    if k == 'alloca':
        return 'alloca%d' % base[1]
    return k


class Mem:
    """persistent byte-addressed store: base -> tuple of writes (off, size, payload); payload is a scalar value,
    ('copy', src_base, src_off, Mem snapshot) or ('zero',)"""

    def __init__(self, logs=None):
        self.logs = logs or {}

    def write(self, base, off, size, payload):
        logs = dict(self.logs)
        logs[base] = logs.get(base, ()) + ((off, size, payload),)
        return Mem(logs)


def _is_int(x):
    return isinstance(x, int) or (isinstance(x, sp.Basic) and x.is_Integer)


class Path:
    """one control-flow path: guard (list of literals), mem, nround, assumed (accepted narrowings), notes,
    fpvals (every intermediate result of a rounded floating-point operation, for magnitude analyses)"""

    def __init__(self):
        self.guard = []
        self.mem = Mem()
        self.nround = 0
        self.assumed = []
        self.notes = []
        self.ret = None
        self.aborted = False
        self.fpvals = []      # (name of the rounding symbol | None, exact term) of every rounded fp operation, in order
        self.visits = {}      # (function, depth, block) -> number of times this path entered the block

    def fork(self):
        p = Path()
        p.fpvals = list(self.fpvals)
        p.visits = dict(self.visits)
        p.guard = list(self.guard)
        p.mem = self.mem
        p.nround = self.nround
        p.assumed = list(self.assumed)
        p.notes = list(self.notes)
        return p


NORETURN_CALLS = {'__assert_fail', 'abort', '_ZSt9terminatev', '__cxa_throw', '__cxa_rethrow', '_ZSt17__throw_bad_allocv',
                  '_ZSt20__throw_length_errorPKc', '_ZSt24__throw_out_of_range_fmtPKcz', '__clang_call_terminate',
                  '_ZSt19__throw_logic_errorPKc', '_ZSt21__throw_runtime_errorPKc', 'exit', '_exit'}
IGNORED_CALLS = ('llvm.lifetime.', 'llvm.dbg.', 'llvm.assume', 'llvm.experimental.noalias.scope.decl', 'llvm.invariant.',
                 'llvm.donothing', 'llvm.sideeffect')
MATH1 = {  # libm / intrinsic stem -> (atom name, counts as a rounded operation)
    'sin': 'Sin', 'cos': 'Cos', 'tan': 'tan', 'exp': 'exp', 'exp2': 'exp2', 'log': 'log', 'log2': 'log2', 'log10': 'log10',
    'acos': 'acos', 'asin': 'asin', 'atan': 'atan', 'floor': 'floor', 'ceil': 'ceil', 'round': 'round', 'trunc': 'ftrunc',
    'rint': 'rint', 'nearbyint': 'rint', 'fabs': 'fabs', 'sinh': 'sinh', 'cosh': 'cosh', 'tanh': 'tanh', 'roundeven': 'rint',
}
MATH2 = {'pow': 'pow', 'atan2': 'atan2', 'fmod': 'fmod', 'copysign': 'copysign'}


def math_stem(name):
    """'sinf' / 'llvm.sin.f32' / 'sin' -> 'sin'"""
    m = re.match(r'^llvm\.([a-z0-9]+)\.(f\d+|v\d+f\d+)$', name)
    if m:
        return m.group(1)
    if name.endswith('f') and name[:-1] in list(MATH1) + list(MATH2) + ['sqrt', 'fmin', 'fmax', 'fma']:
        return name[:-1]
    if name.endswith('l') and name[:-1] in list(MATH1) + list(MATH2) + ['sqrt']:
        return None
    return name


# =====================================================================================================
#  the interpreter: loop-free functions -> guarded terms
# =====================================================================================================
class Interp:
    def __init__(self, mod, opts):
        self.mod = mod
        self.L = mod.layout
        self.rounding = bool(opts.get('rounding'))
        nn = opts.get('nonneg', ())
        self.nonneg = nn if callable(nn) else (lambda name, _s=set(nn): name in _s)
        self.fits = opts.get('fits')
        self.inputs = opts.get('inputs')
        self.max_paths = opts.get('max_paths', MAX_PATHS)
        self.nalloca = 0
        self.dcount = 0
        self.input_kinds = {}
        self.npaths = 0
        self.argtypes = {}      # base -> [(offset, scalar type)] of the pointee of a pointer argument
        self.pointers = dict(opts.get('pointers') or {})     # input location -> (global name, byte offset)
        self.unroll = opts.get('unroll', True)
        self.max_unroll = opts.get('max_unroll', MAX_UNROLL)
        # cut_loops=True: a path that visits a block more than max_unroll times is set aside in Summary.cut (its guard holds the
        # continue conditions of the iterations executed so far) instead of making the whole summary Undecided; the completed
        # paths are then the executions that leave every loop within max_unroll iterations - NOT all executions
        self.cut_loops = opts.get('cut_loops', False)
        self.cut = []

    # ---------------------------------------------------------------- inputs
    def input_scalar(self, name, ty):
        """value of an input location / argument of scalar type ty"""
        ty = self.L.resolve(ty)
        if ty[0] == 'ptr':
            if name in self.pointers:
                g, off = self.pointers[name]
                return PtrV(('global', g.lstrip('@')), off)
            return PtrV(('sym', name), 0)
        k = (ty[0], ty[1])
        prev = self.input_kinds.setdefault(name, k)
        if prev != k and prev[0] == k[0]:
            raise Undecided('input %s is read both as %s%d and as %s%d' % (name, prev[0], prev[1], k[0], k[1]))
        if prev[0] != k[0]:
            t = atom('bits_%s%d_%s%d' % (prev[0], prev[1], k[0], k[1]), sym(name))
            return FpV(ty[1], t) if ty[0] == 'fp' else IntV(ty[1], t)
        if self.inputs is not None:
            t = self.inputs(name, type_str(ty))
            if t is not None:
                t = sp.sympify(t)
                return FpV(ty[1], t) if ty[0] == 'fp' else IntV(ty[1], t)
        s = sym(name)
        if ty[0] == 'fp':
            return FpV(ty[1], s)
        if ty[1] == 1:
            return BoolV(F('eq')(s, sp.Integer(1)))
        nn = bool(self.nonneg(name))
        return IntV(ty[1], s, sx=True, ux=nn, mag=ty[1] - 1)

    # ---------------------------------------------------------------- constants / operands
    def const(self, ty, v):
        ty = self.L.resolve(ty) if ty is not None else None
        k = v[0]
        if k == 'int':
            if ty[0] == 'int':
                return const_int(ty[1], v[1])
            if ty[0] == 'fp':
                return FpV(ty[1], sp.Integer(v[1]))
            raise Undecided('integer constant of type %r' % (ty,))
        if k == 'bool':
            return BoolV(TRUE if v[1] else FALSE)
        if k == 'fp':
            if isinstance(v[1], str):
                raise Undecided('non-finite float constant')
            return FpV(ty[1], const_fraction(v[1]))
        if k == 'null':
            return PtrV(('null',), 0)
        if k == 'undef':
            if ty[0] in ('vec', 'arr'):
                return AggV([UNDEF] * ty[1])
            if ty[0] == 'struct':
                return AggV([self.const(e, v) for e in ty[1]])
            return UNDEF
        if k == 'zero':
            return self.zero(ty)
        if k == 'agg':
            return AggV([self.const(t, x) for t, x in v[1]])
        if k == 'glob':
            return PtrV(('global', v[1][1:].strip('"')), 0)
        if k == 'meta':
            return UNDEF
        if k == 'cexpr':
            if v[1] == 'gep':
                p = self.const(v[3][0], v[3][1])
                return self.gep(v[2], p, [(t, self.const(t, x)) for t, x in v[4]])
            if v[1] in ('bitcast', 'addrspacecast'):
                x = self.const(v[2][0], v[2][1])
                if x.kind == 'p':
                    return x
            raise Undecided('constant expression %s' % v[1])
        raise Undecided('constant %r' % (v,))

    def zero(self, ty):
        ty = self.L.resolve(ty)
        if ty[0] == 'int':
            return const_int(ty[1], 0)
        if ty[0] == 'fp':
            return FpV(ty[1], sp.Integer(0))
        if ty[0] == 'ptr':
            return PtrV(('null',), 0)
        if ty[0] in ('vec', 'arr'):
            return AggV([self.zero(ty[2]) for _ in range(ty[1])])
        if ty[0] == 'struct':
            return AggV([self.zero(e) for e in ty[1]])
        raise Undecided('zero of type %r' % (ty,))

    def val(self, env, ty, v):
        if v[0] == 'loc':
            if v[1] not in env:
                raise Undecided('use of undefined value %s' % v[1])
            return env[v[1]]
        return self.const(ty, v)

    # ---------------------------------------------------------------- memory
    def gep(self, sty, p, idx):
        if p.kind != 'p':
            raise Undecided('getelementptr on a non-pointer')
        off = p.off
        cur = sty
        first = True
        for ity, iv in idx:
            if iv.kind != 'i':
                raise Undecided('getelementptr index')
            it = iv.term
            if first:
                off = off + self.L.size(cur) * it
                first = False
                continue
            c = self.L.resolve(cur)
            if c[0] == 'struct':
                if not it.is_Integer:
                    raise Undecided('symbolic struct index')
                o, e = self.L.field_offset(c, int(it))
                off = off + o
                cur = e
            elif c[0] in ('arr', 'vec'):
                off = off + self.L.size(c[2]) * it
                cur = c[2]
            else:
                raise Undecided('getelementptr into %r' % (c,))
        if isinstance(off, sp.Basic):
            off = sp.expand(off)
            if off.is_Integer:
                off = int(off)
        return PtrV(p.base, off)

    def store(self, P, ty, v, p):
        if p.kind != 'p':
            raise Undecided('store through a non-pointer')
        if p.base[0] == 'null':
            raise Undecided('store through null')
        for o, sty in self.L.scalars(ty):
            sv = self.extract_at(ty, v, o, sty)
            pp = self.parts_of(sv, P) if getattr(sv, 'kind', '') == 'i' else None
            if pp is not None and len(pp) > 1 and pp[0][0] == 0:
                pos = 0
                okp = True
                for (bo, pv) in pp:
                    if bo != pos or pv.bits % 8:
                        okp = False
                    pos = bo + pv.bits // 8
                if okp and pos == self.L.size(sty):
                    for (bo, pv) in pp:
                        P.mem = P.mem.write(p.base, p.off + o + bo, pv.bits // 8, pv)
                    continue
            P.mem = P.mem.write(p.base, p.off + o if o else p.off, self.L.size(sty), sv)

    def parts_of(self, v, P=None):
        """little-endian pieces [(byte offset, value)] of an integer built by zext / shl-by-bytes / or, else None"""
        if v.kind != 'i' or v.org is None:
            return None
        k = v.org[0]
        if k == 'parts':
            return list(v.org[1])
        if k == 'zext':
            x = v.org[1]
            if x.kind == 'i' and x.bits % 8 == 0:
                inner = self.parts_of(x, P)
                return inner if inner is not None else [(0, x)]
            return None
        if k == 'shl' and v.org[2] % 8 == 0:
            inner = self.parts_of(v.org[1], P)
            sh = v.org[2] // 8
            if inner is None:
                if P is None:
                    return None
                return [(sh, self.trunc(P, v.org[1], v.bits - v.org[2]))]
            return [(o + sh, x) for (o, x) in inner if (o + sh) * 8 + x.bits <= v.bits]
        return None

    def extract_at(self, ty, v, off, sty):
        """scalar component of aggregate value v (type ty) at byte offset off"""
        ty = self.L.resolve(ty)
        if ty[0] in ('int', 'fp', 'ptr'):
            return v
        if v.kind == 'u':
            return UNDEF
        if ty[0] in ('vec', 'arr'):
            es = self.L.size(ty[2])
            i = off // es
            return self.extract_at(ty[2], v.elems[i], off - i * es, sty)
        if ty[0] == 'struct':
            for i in range(len(ty[1]) - 1, -1, -1):
                o, e = self.L.field_offset(ty, i)
                if o <= off:
                    return self.extract_at(e, v.elems[i], off - o, sty)
        raise Undecided('cannot split a value of type %r' % (ty,))

    def load(self, P, ty, p):
        if p.kind != 'p':
            raise Undecided('load through a non-pointer')
        return self.load_typed(P.mem, ty, p.base, p.off)

    def load_typed(self, mem, ty, base, off):
        ty = self.L.resolve(ty)
        if ty[0] in ('int', 'fp', 'ptr'):
            return self.load_scalar(mem, ty, base, off)
        if ty[0] in ('vec', 'arr'):
            es = self.L.size(ty[2])
            return AggV([self.load_typed(mem, ty[2], base, off + i * es) for i in range(ty[1])])
        if ty[0] == 'struct':
            out = []
            for i in range(len(ty[1])):
                o, e = self.L.field_offset(ty, i)
                out.append(self.load_typed(mem, e, base, off + o))
            return AggV(out)
        raise Undecided('load of type %r' % (ty,))

    def convert_loaded(self, v, ty):
        if v.kind == 'u':
            raise Undecided('load of an undefined value')
        if ty[0] == 'ptr':
            if v.kind == 'p':
                return v
            raise Undecided('integer reinterpreted as a pointer')
        if ty[0] == 'fp':
            if v.kind == 'f' and v.bits == ty[1]:
                return v
            if v.kind == 'i' and v.bits == ty[1]:
                if v.term.is_Integer and v.term == 0:
                    return FpV(ty[1], sp.Integer(0))
                if v.org is not None and v.org[0] == 'fbits':
                    return FpV(ty[1], v.org[1])                      # bits(t) reinterpreted back
                if v.org is not None and v.org[0] == 'copysign':
                    return FpV(ty[1], atom('copysign', v.org[1], v.org[2]))
                if v.org is not None and v.org[0] == 'signof':
                    return FpV(ty[1], atom('copysign', sp.Integer(0), v.org[1]))
                if v.term.is_Integer and ty[1] in (32, 64):
                    fv = float_from_bits(int(v.term), ty[1])
                    if fv is not None:
                        return FpV(ty[1], fv)
                return FpV(ty[1], atom('bits_i%d_f%d' % (v.bits, ty[1]), v.term))
        if ty[0] == 'int':
            if v.kind in ('i', 'b') and v.bits == ty[1]:
                return v
            if v.kind == 'f' and v.bits == ty[1]:
                if v.term == 0:
                    return const_int(ty[1], 0)
                if is_app(v.term, 'Sel') and v.term.args[1] == ALLONES and v.term.args[2] == 0:
                    return IntV(ty[1], mk_sel(v.term.args[0], sp.Integer(-1), sp.Integer(0)), sx=True, org=('mask', v.term.args[0]))
                if v.term == ALLONES:
                    return const_int(ty[1], -1)
                return IntV(ty[1], atom('bits_f%d_i%d' % (v.bits, ty[1]), v.term), org=('fbits', v.term))
            if v.kind == 'b' and ty[1] == 8:
                return IntV(8, mk_sel(v.cond, sp.Integer(1), sp.Integer(0)), sx=True, ux=True, mag=1)
            if v.kind == 'i' and v.bits == 8 and ty[1] == 1:
                return BoolV(ilit('ne', v.term, 0))
        raise Undecided('load reinterprets a stored %s as %s' % (v, type_str(ty)))

    def pieces_in(self, mem, base, off, size):
        """[(offset, scalar type)] exactly tiling [off, off+size) by the scalars last stored there (or, for never
        written argument memory, by the declared pointee type); None if there is no such tiling or it is trivial"""
        log = mem.logs.get(base, ())
        cover = {}
        for (o, s, w) in log:
            if not _is_int(o):
                return None
            if o + s <= off or off + size <= o:
                continue
            if isinstance(w, tuple):
                if w[0] == 'copy' and o <= off and off + size <= o + s:
                    return None      # resolved by the recursive load
                return None
            if o < off or o + s > off + size:
                return None
            for (o2, s2) in list(cover):
                if not (o2 + s2 <= o or o + s <= o2):
                    if (o2, s2) == (o, s):
                        del cover[(o2, s2)]
                    else:
                        return None
            cover[(o, s)] = w
        if cover:
            tiles = sorted(cover)
            pos = off
            out = []
            for (o, s) in tiles:
                if o != pos:
                    return None
                w = cover[(o, s)]
                t = ('int', w.bits) if w.kind in ('i', 'b') else ('fp', w.bits) if w.kind == 'f' else ('ptr', None) if w.kind == 'p' else None
                if t is None and w.kind == 'u' and any(cover[k_].kind != 'u' for k_ in tiles):
                    t = ('undef', 8 * s)      # an indeterminate piece (e.g. the padding lane of a padded vector) next to defined ones
                if t is None:
                    return None
                out.append((o, t))
                pos = o + s
            return out if pos == off + size and len(out) > 1 else None
        if not log and base in self.argtypes:
            out = [(o, t) for (o, t) in self.argtypes[base] if off <= o < off + size]
            pos = off
            for (o, t) in out:
                if o != pos:
                    return None
                pos = o + self.L.size(t)
            return out if pos == off + size and len(out) > 1 else None
        return None

    def load_packed(self, mem, ty, base, off, pieces):
        """integer load covering several scalars: little-endian packed word"""
        N = ty[1]
        parts = []
        acc = None
        for (o, t) in pieces:
            if t[0] == 'undef':
                # indeterminate bytes inside the word: an opaque atom, harmless unless it reaches an output or a branch
                v = IntV(t[1], atom('undef_i%d' % t[1], sym(base_name(base)), sp.Integer(o)))
            else:
                v = self.load_scalar(mem, t, base, o)
            if v.kind == 'p':
                raise Undecided('pointer inside a packed integer load')
            parts.append((o - off, v))
            iv = v
            if v.kind == 'f':
                iv = IntV(v.bits, atom('bits_f%d_i%d' % (v.bits, v.bits), v.term))
            P = Path()
            z = self.zext(P, self.as_int(iv), N)
            if o - off:
                z = self.ibin(P, 'shl', set(), z, const_int(N, 8 * (o - off)))
            acc = z if acc is None else self.ibin(P, 'or', set(), acc, z)
        return IntV(N, acc.term, acc.sx, acc.ux, acc.mag, org=('parts', parts))

    def load_scalar(self, mem, ty, base, off):
        size = self.L.size(ty)
        log = mem.logs.get(base, ())
        symbolic = not _is_int(off)
        if not symbolic and ty[0] == 'int' and size > 1:
            pcs = self.pieces_in(mem, base, off, size)
            if pcs is not None:
                return self.load_packed(mem, ty, base, off, pcs)
        for (o, s, w) in reversed(log):
            if symbolic or not _is_int(o):
                d = sp.expand(sp.sympify(off) - sp.sympify(o))
                if d == 0 and s == size and not isinstance(w, tuple):
                    return self.convert_loaded(w, ty)
                if d.is_Integer and (int(d) >= s or -int(d) >= size):
                    continue
                raise Undecided('load at %s[%s] may alias an earlier store at offset %s' % (base_name(base), off, o))
            if o + s <= off or off + size <= o:
                continue
            if isinstance(w, tuple) and w[0] == 'copy':
                if o <= off and off + size <= o + s:
                    return self.load_scalar(w[3], ty, w[1], w[2] + (off - o))
                raise Undecided('load straddles a memcpy boundary')
            if isinstance(w, tuple) and w[0] == 'zero':
                if o <= off and off + size <= o + s:
                    return self.zero(ty)
                raise Undecided('load straddles a memset boundary')
            if o == off and s == size:
                return self.convert_loaded(w, ty)
            raise Undecided('load of %s at %s[%s] overlaps a store of different extent' % (type_str(ty), base_name(base), off))
        # never written on this path
        k = base[0]
        if k in ('arg', 'sym'):
            if symbolic:
                if ty[0] == 'ptr':
                    raise Undecided('pointer loaded from a symbolic address')
                t = atom('ld_%s' % type_str(ty), sym(base_name(base)), off)
                return FpV(ty[1], t) if ty[0] == 'fp' else (IntV(ty[1], t, sx=True, mag=ty[1] - 1) if ty[1] > 1 else BoolV(F('eq')(t, 1)))
            return self.input_scalar('%s[%d]' % (base_name(base), off), ty)
        if k == 'global':
            g = self.mod.globals.get(base[1])
            if g is not None and g[0] and g[2] is not None and not symbolic:
                try:
                    gv = self.const(g[1], g[2])
                    for o2, st in self.L.scalars(g[1]):
                        if o2 == off and self.L.size(st) == size:
                            return self.convert_loaded(self.extract_at(g[1], gv, o2, st), ty)
                except Undecided:
                    pass
            if symbolic:
                raise Undecided('load from global @%s at a symbolic offset' % base[1])
            return self.input_scalar('@%s[%d]' % (base[1], off), ty)
        if k == 'alloca':
            if ty[0] == 'fp' and not symbolic:
                # an indeterminate value (e.g. the padding lane of a padded vector that is copied along): an opaque atom, harmless
                # unless it reaches an output or a branch, where the clients report the slot as involving opaque atoms
                return FpV(ty[1], atom('undef_%s' % type_str(ty).replace(' ', '_'), sym(base_name(base)), off))
            raise Undecided('load of uninitialised stack memory')
        raise Undecided('load through %s' % (base,))

    # ---------------------------------------------------------------- arithmetic helpers
    def rnd(self, P, t):
        P.nround += 1
        if self.rounding:
            self.dcount += 1
            P.fpvals.append(('_d%d' % self.dcount, t))
            return t * (1 + sym('_d%d' % self.dcount))
        P.fpvals.append((None, t))
        return t

    def lanewise(self, f, *vs):
        if any(v.kind == 'a' for v in vs):
            n = max(len(v.elems) for v in vs if v.kind == 'a')
            out = []
            for i in range(n):
                out.append(self.lanewise(f, *[(v.elems[i] if v.kind == 'a' else v) for v in vs]))
            return AggV(out)
        if any(v.kind == 'u' for v in vs):
            return UNDEF
        return f(*vs)

    def fbin(self, P, op, x, y):
        if op == 'fadd':
            t = x.term + y.term
        elif op == 'fsub':
            t = x.term - y.term
        elif op == 'fmul':
            t = x.term * y.term
        elif op == 'fdiv':
            t = x.term / y.term
        else:
            return FpV(x.bits, atom('fmod', x.term, y.term))
        return FpV(x.bits, self.rnd(P, t))

    def as_int(self, v):
        if v.kind == 'b':
            return IntV(1, mk_sel(v.cond, sp.Integer(1), sp.Integer(0)), sx=False, ux=True, mag=1)
        return v

    def ibin(self, P, op, fl, x, y):
        N = x.bits
        if x.kind == 'b' or y.kind == 'b':
            cx = x.cond if x.kind == 'b' else None
            cy = y.cond if y.kind == 'b' else None
            if cx is None or cy is None:
                raise Undecided('mixed i1 arithmetic')
            if op == 'and':
                return BoolV(b_and(cx, cy))
            if op == 'or':
                return BoolV(_b_or([cx, cy]))
            if op == 'xor':
                if cy == TRUE:
                    return BoolV(neg(cx))
                if cx == TRUE:
                    return BoolV(neg(cy))
                return BoolV(_b_or([b_and(cx, neg(cy)), b_and(neg(cx), cy)]))
            raise Undecided('i1 %s' % op)
        a, b = x.term, y.term
        both = lambda f: getattr(x, f) and getattr(y, f)
        if op in ('add', 'sub'):
            t = a + b if op == 'add' else a - b
            mag = None
            if x.mag is not None and y.mag is not None:
                mag = max(x.mag, y.mag) + 1
            sx = both('sx') and ('nsw' in fl or (mag is not None and mag <= N - 1))
            if op == 'add':
                ux = both('ux') and ('nuw' in fl or (mag is not None and mag <= N))
            else:
                ux = both('ux') and 'nuw' in fl
            return IntV(N, t, sx, ux, mag)
        if op == 'mul':
            mag = x.mag + y.mag if (x.mag is not None and y.mag is not None) else None
            sx = both('sx') and ('nsw' in fl or (mag is not None and mag <= N - 1))
            ux = both('ux') and ('nuw' in fl or (mag is not None and mag <= N))
            return IntV(N, a * b, sx, ux, mag)
        if op in ('shl', 'lshr', 'ashr'):
            if not b.is_Integer:
                return IntV(N, atom('op_%s%d' % (op, N), a, b))
            k = int(b)
            if k == 0:
                return x
            if op == 'shl':
                mag = x.mag + k if x.mag is not None else None
                sx = x.sx and ('nsw' in fl or (mag is not None and mag <= N - 1))
                ux = x.ux and ('nuw' in fl or (mag is not None and mag <= N))
                return IntV(N, a * 2 ** k, sx, ux, mag, org=('shl', x, k))
            if x.shl is not None and x.shl[1] == k:
                inner = self.trunc(P, x.shl[0], N - k)
                return self.sext(P, inner, N) if op == 'ashr' else self.zext(P, inner, N)
            pp = self.parts_of(x)
            if pp and k % 8 == 0:
                hi = [(o - k // 8, v) for (o, v) in pp if o >= k // 8]
                cut = [1 for (o, v) in pp if o < k // 8 < o + v.bits // 8]
                if hi and not cut and all(v.kind == 'i' for _, v in hi):
                    if len(hi) == 1 and hi[0][0] == 0 and (hi[0][1].bits == N - k):
                        return self.sext(P, hi[0][1], N) if op == 'ashr' else self.zext(P, hi[0][1], N)
                    if op == 'lshr':
                        acc = None
                        for (o, v) in hi:
                            z = self.zext(P, v, N)
                            if o:
                                z = self.ibin(P, 'shl', set(), z, const_int(N, 8 * o))
                            acc = z if acc is None else self.ibin(P, 'or', set(), acc, z)
                        return acc
            if op == 'lshr':
                if x.ux and x.mag is not None and x.mag <= k:
                    return const_int(N, 0)
                m = (x.mag - k) if (x.ux and x.mag is not None) else N - k
                return IntV(N, atom('udiv%d' % N, a, 2 ** k), sx=True, ux=True, mag=max(m, 0))
            m = (x.mag - k) if (x.sx and x.mag is not None) else N - 1
            return IntV(N, atom('ashr%d' % N, a, k), sx=True, ux=x.ux, mag=max(m, 0))
        if op in ('udiv', 'urem'):
            q = atom('udiv%d' % N, a, b)
            if a.is_Integer and b.is_Integer and x.ux and y.ux and b != 0:
                q = sp.Integer(int(a) // int(b))
            elif not b.is_Number:
                # (b * udiv(e, b)) / b == udiv(e, b): the product is <= e, so it cannot wrap
                q0 = sp.cancel(sp.expand(a) / b)
                if is_app(q0, 'udiv%d' % N) and sp.expand(q0.args[1] - norm(b)) == 0:
                    q = q0
            if op == 'udiv':
                return IntV(N, q, sx=(x.ux and x.mag is not None and x.mag <= N - 1), ux=True, mag=x.mag if x.ux else N)
            ok = x.ux and y.ux
            return IntV(N, a - b * q, sx=ok and y.mag is not None and y.mag <= N - 1, ux=ok, mag=y.mag)
        if op in ('sdiv', 'srem'):
            q = atom('sdiv%d' % N, a, b)
            if op == 'sdiv':
                return IntV(N, q, sx=True, ux=both('ux') and both('sx'), mag=x.mag if x.sx else N - 1)
            ok = x.sx and y.sx
            return IntV(N, a - b * q, sx=ok, ux=False, mag=y.mag if ok else None)
        if op in ('and', 'or', 'xor') and a.is_Integer and b.is_Integer:
            m_ = (1 << N) - 1
            ca, cb = int(a) & m_, int(b) & m_
            return const_int(N, {'and': ca & cb, 'or': ca | cb, 'xor': ca ^ cb}[op])
        if op in ('and', 'or', 'xor') and N in (32, 64):
            # branch-free selection with a compare mask:  (mask & bits(u)) | (~mask & bits(v))  ==  bits(mask ? u : v)
            def as_float(w):
                if w.org is not None and w.org[0] == 'fbits':
                    return w.org[1]
                if w.org is not None and w.org[0] == 'copysign':
                    return atom('copysign', w.org[1], w.org[2])
                if w.term.is_Integer:
                    return float_from_bits(int(w.term), N)
                return None
            for u, v in ((x, y), (y, x)):
                if u.org is not None and u.org[0] == 'mask':
                    c_ = u.org[1]
                    if op == 'xor' and v.term.is_Integer and int(v.term) == -1:
                        return IntV(N, mk_sel(c_, sp.Integer(0), sp.Integer(-1)), sx=True, org=('mask', neg(c_)))
                    if op == 'and':
                        fv = as_float(v)
                        if fv is not None:
                            t_ = mk_sel(c_, fv, sp.Integer(0))
                            return IntV(N, atom('bits_f%d_i%d' % (N, N), t_), org=('fbits', t_))
            if op == 'or' and x.org is not None and y.org is not None and x.org[0] == 'fbits' and y.org[0] == 'fbits':
                ta, tb = x.org[1], y.org[1]
                if is_app(ta, 'Sel') and is_app(tb, 'Sel') and ta.args[0] == tb.args[0]:
                    if ta.args[2] == 0 and tb.args[1] == 0:
                        t_ = mk_sel(ta.args[0], ta.args[1], tb.args[2])
                        return IntV(N, atom('bits_f%d_i%d' % (N, N), t_), org=('fbits', t_))
                    if ta.args[1] == 0 and tb.args[2] == 0:
                        t_ = mk_sel(ta.args[0], tb.args[1], ta.args[2])
                        return IntV(N, atom('bits_f%d_i%d' % (N, N), t_), org=('fbits', t_))
        if op in ('and', 'or', 'xor'):
            # sign-bit manipulation of a float's bit pattern: bits(t) & signmask, | bits(|c|), ^ signmask, & ~signmask
            for u, v in ((x, y), (y, x)):
                if v.term.is_Integer and u.org is not None and u.org[0] in ('fbits', 'signof') and N in (32, 64):
                    c = int(v.term) & ((1 << N) - 1)
                    smask = 1 << (N - 1)
                    if u.org[0] == 'fbits':
                        t = u.org[1]
                        if op == 'and' and c == smask:
                            return IntV(N, atom('signbit%d' % N, t), org=('signof', t))
                        if op == 'and' and c == smask - 1:
                            return IntV(N, atom('bits_f%d_i%d' % (N, N), atom('fabs', t)), org=('fbits', atom('fabs', t)))
                        if op == 'xor' and c == smask:
                            return IntV(N, atom('bits_f%d_i%d' % (N, N), -t), org=('fbits', -t))
                    elif op == 'or' and c < smask:
                        mag = float_from_bits(c, N)
                        if mag is not None:
                            return IntV(N, catom('or%d' % N, a, b), org=('copysign', mag, u.org[1]))
            for u, v in ((x, y), (y, x)):
                if v.term.is_Integer:
                    c = int(v.term)
                    if op == 'and' and c >= 0 and (c & (c + 1)) == 0:      # low mask 2^k - 1
                        k = c.bit_length()
                        if u.ux and u.mag is not None and u.mag <= k:
                            return u
                        if k == 0:
                            return const_int(N, 0)
                        if k % 8 == 0 and k < N:
                            pp = self.parts_of(u, None)
                            if pp and pp[0][0] == 0 and pp[0][1].kind == 'i' and pp[0][1].bits == k:
                                return self.zext(P, pp[0][1], N)
                        org = ('zext', self.trunc(P, u, k)) if (k % 8 == 0 and k < N) else None
                        return IntV(N, u.term - 2 ** k * atom('udiv%d' % N, u.term, 2 ** k), sx=True, ux=True, mag=k, org=org)
                    if op == 'and' and c != 0:
                        # sign-bit mask over the pieces of a packed word: (packed & 0x80000000_80000000) tests the signs
                        pp = self.parts_of(u, None)
                        if pp and all(pv.kind == 'i' for _, pv in pp):
                            cm = c & ((1 << N) - 1)
                            picked = []
                            rest = cm
                            okm = True
                            for (bo, pv) in pp:
                                fm = (cm >> (8 * bo)) & ((1 << pv.bits) - 1)
                                rest &= ~(((1 << pv.bits) - 1) << (8 * bo))
                                if fm == 1 << (pv.bits - 1):
                                    picked.append(pv)
                                elif fm != 0:
                                    okm = False
                            if okm and rest == 0 and picked:
                                return IntV(N, catom('and%d' % N, a, b), org=('signmask', picked))
                    if op == 'xor' and c == -1:
                        return IntV(N, -u.term - 1, sx=u.sx, ux=False, mag=(u.mag + 1) if u.mag is not None else None)
                    if op in ('or', 'xor') and c == 0:
                        return u
                    if op == 'and' and c == -1:
                        return u
                    if op == 'and' and c == 0:
                        return const_int(N, 0)
            t = catom('%s%d' % (op, N), a, b)
            org = None
            if op == 'or':
                px, py = self.parts_of(x, P), self.parts_of(y, P)
                if px is not None and py is not None:
                    allp = sorted(px + py, key=lambda q: q[0])
                    pos = 0
                    okp = True
                    for (bo, pv) in allp:
                        if bo < pos:
                            okp = False
                        pos = bo + pv.bits // 8
                    if okp:
                        org = ('parts', allp)
            nn = both('ux') and both('sx')
            mag = max(x.mag, y.mag) if (nn and x.mag is not None and y.mag is not None) else None
            if op == 'and' and not nn:
                for u in (x, y):
                    if u.ux and u.sx and u.mag is not None:
                        nn, mag = True, u.mag
            return IntV(N, t, sx=nn, ux=nn, mag=mag, org=org)
        raise Undecided('integer operation %s' % op)

    # ---- width changes
    def accept_fit(self, P, term, frm, to, signed):
        if self.fits is None:
            return False
        why = self.fits(term, frm, to, signed)
        if why:
            P.assumed.append('i%d -> i%d narrowing of `%s` assumed value-preserving: %s' % (frm, to, term, why))
            return True
        return False

    def trunc(self, P, x, N):
        if x.kind == 'b':
            return x
        pp = self.parts_of(x)
        if pp:
            if pp[0][0] == 0 and pp[0][1].bits == N and pp[0][1].kind == 'i':
                return pp[0][1]
            if N % 8 == 0:
                sub = [(o, v) for (o, v) in pp if o * 8 + v.bits <= N]
                if sub and all(v.kind == 'i' for _, v in sub):
                    acc = None
                    for (o, v) in sub:
                        z = self.zext(P, v, N)
                        if o:
                            z = self.ibin(P, 'shl', set(), z, const_int(N, 8 * o))
                        acc = z if acc is None else self.ibin(P, 'or', set(), acc, z)
                    if len(sub) == len([1 for (o, v) in pp if o * 8 < N]):
                        return acc
        if N == 1:
            return BoolV(ilit('ne', x.term - 2 * atom('udiv%d' % x.bits, x.term, 2), 0))
        if x.sx and x.mag is not None and x.mag <= N - 1:
            return IntV(N, x.term, True, x.ux, x.mag)
        if x.ux and x.mag is not None and x.mag <= N:
            return IntV(N, x.term, x.mag <= N - 1, True, x.mag)
        if (x.sx or x.ux) and self.accept_fit(P, x.term, x.bits, N, x.sx):
            return IntV(N, x.term, x.sx, x.ux, min(x.mag, N - 1) if x.mag is not None else N - 1)
        return IntV(N, x.term)

    def ext_ctx(self, P, t, src, N, signed, ctx):
        """extension of an arm of a select under the literals ctx"""
        if is_app(t, 'Sel'):
            c = t.args[0]
            if is_literal(c) and not is_app(c, 'BNot'):
                arms = []
                for val in (True, False):
                    cx = [subst_lit(l, c, val) for l in ctx] + [c if val else neg(c)]
                    arms.append(self.ext_ctx(P, t.args[1 if val else 2], src, N, signed, cx))
                return mk_sel(c, arms[0], arms[1])
        if t.is_Integer:
            return t if (t >= 0 or signed) else t + 2 ** src.bits
        if signed:
            return t if src.sx else atom('sext%d_%d' % (src.bits, N), t)
        if src.ux:
            return t
        if src.sx and not consistent(ctx + [ilit('slt', t, 0)]):
            return t
        return atom('zext%d_%d' % (src.bits, N), t)

    def sext(self, P, x, N):
        if x.kind == 'b':
            return IntV(N, mk_sel(x.cond, sp.Integer(-1), sp.Integer(0)), sx=True, ux=False, mag=1)
        if x.sx:
            return IntV(N, x.term, True, x.ux, x.mag)
        return IntV(N, atom('sext%d_%d' % (x.bits, N), x.term), sx=True, ux=False, mag=x.bits - 1)

    def zext(self, P, x, N):
        if x.kind == 'b':
            return IntV(N, mk_sel(x.cond, sp.Integer(1), sp.Integer(0)), sx=True, ux=True, mag=1)
        if x.ux:
            return IntV(N, x.term, True, True, x.mag, org=('zext', x))
        t = self.ext_ctx(P, x.term, x, N, False, list(P.guard))
        return IntV(N, t, sx=True, ux=True, mag=x.bits, org=('zext', x))

    def cast(self, P, op, x, fty, tty):
        fty, tty = self.L.resolve(fty), self.L.resolve(tty)
        if fty[0] == 'vec' and tty[0] == 'vec' and fty[1] == tty[1] and op != 'bitcast':
            if x.kind == 'u':
                return AggV([UNDEF] * fty[1])
            return AggV([self.cast(P, op, e, fty[2], tty[2]) if e.kind != 'u' else UNDEF for e in x.elems])
        if x.kind == 'u':
            return UNDEF
        if op == 'bitcast':
            if x.kind == 'p':
                return x
            if fty == tty:
                return x
            if fty[0] in ('int', 'fp') and tty[0] in ('int', 'fp'):
                return self.convert_loaded(x, tty)
            if fty[0] == 'vec' and tty[0] == 'vec' and self.L.resolve(fty[2]) == self.L.resolve(tty[2]):
                return x
            if fty[0] == 'vec' and tty[0] == 'vec' and fty[1] == tty[1]:
                fe, te = self.L.resolve(fty[2]), self.L.resolve(tty[2])
                if fe[0] in ('int', 'fp') and te[0] in ('int', 'fp') and fe[1] == te[1]:
                    return AggV([UNDEF if e.kind == 'u' else self.convert_loaded(e, te) for e in x.elems])
            raise Undecided('bitcast %s -> %s' % (type_str(fty), type_str(tty)))
        if op == 'addrspacecast':
            return x
        if op == 'trunc':
            return self.trunc(P, x, tty[1])
        if op == 'sext':
            return self.sext(P, x, tty[1])
        if op == 'zext':
            return self.zext(P, x, tty[1])
        if op == 'fpext':
            return FpV(tty[1], x.term)
        if op == 'fptrunc':
            return FpV(tty[1], self.rnd(P, x.term))
        if op in ('sitofp', 'uitofp'):
            x = self.as_int(x)
            exact = x.sx if op == 'sitofp' else x.ux
            t = x.term if exact else atom('%s_%d' % (op, x.bits), x.term)
            if t.is_Integer:
                return FpV(tty[1], t)
            return FpV(tty[1], self.rnd(P, t))
        if op in ('fptoui', 'fptosi'):
            N = tty[1]
            if op == 'fptoui':
                return IntV(N, atom('fptoui%d' % N, x.term), sx=False, ux=True, mag=N)
            return IntV(N, atom('fptosi%d' % N, x.term), sx=True, ux=False, mag=N - 1)
        raise Undecided('cast %s' % op)

    def ptr_term(self, p):
        if p.base[0] == 'null':
            return sp.sympify(p.off)
        return sym('&' + base_name(p.base)) + p.off

    def low_part(self, v):
        """the narrower integer a value is the zero-extension of (IntV), a 0-bit marker for the constant 0, else None"""
        if v.kind != 'i':
            return None
        if v.term == 0:
            return IntV(0, sp.Integer(0), True, True, 0)
        if v.org is not None and v.org[0] == 'zext' and v.org[1].kind == 'i':
            return v.org[1]
        return None

    def select(self, c, x, y):
        if c.kind == 'a':
            return AggV([self.select(ci, (x.elems[i] if x.kind == 'a' else x), (y.elems[i] if y.kind == 'a' else y))
                         for i, ci in enumerate(c.elems)])
        if c.kind != 'b':
            raise Undecided('select on a non-i1 condition')
        cond = c.cond
        if cond == TRUE:
            return x
        if cond == FALSE:
            return y
        if x.kind == 'a' or y.kind == 'a':
            return AggV([self.select(c, (x.elems[i] if x.kind == 'a' else x), (y.elems[i] if y.kind == 'a' else y))
                         for i in range(len((x if x.kind == 'a' else y).elems))])
        if x.kind == 'u':
            return y
        if y.kind == 'u':
            return x
        if x.kind == 'f':
            return FpV(x.bits, mk_sel(cond, x.term, y.term))
        if x.kind == 'b' or y.kind == 'b':
            return BoolV(_b_or([b_and(cond, x.cond), b_and(neg(cond), y.cond)]))
        if x.kind == 'i':
            lx, ly = self.low_part(x), self.low_part(y)
            if lx is not None and ly is not None and (lx.bits == ly.bits or lx.bits == 0 or ly.bits == 0) and max(lx.bits, ly.bits) < x.bits:
                nb = max(lx.bits, ly.bits)
                if nb:
                    lx = lx if lx.bits else const_int(nb, 0)
                    ly = ly if ly.bits else const_int(nb, 0)
                    return self.zext(Path(), self.select(c, lx, ly), x.bits)
            mag = max(x.mag, y.mag) if (x.mag is not None and y.mag is not None) else None
            return IntV(x.bits, mk_sel(cond, x.term, y.term), x.sx and y.sx, x.ux and y.ux, mag)
        if x.kind == 'p':
            if x.base == y.base:
                return PtrV(x.base, mk_sel(cond, sp.sympify(x.off), sp.sympify(y.off)))
            raise Undecided('select between different objects')
        raise Undecided('select of %s' % x.kind)

    # ---------------------------------------------------------------- calls
    def call_known(self, P, name, args, rty):
        """-> (handled, value).  Pure math / intrinsics modelled as listed symbols."""
        rty = self.L.resolve(rty)
        if name.startswith(IGNORED_CALLS):
            return True, None
        m = re.match(r'^llvm\.x86\.sse2?\.(rcp|rsqrt|sqrt|min|max)\.s[sd]$', name)
        if m:
            k = m.group(1)
            v = args[0]
            if v.kind != 'a' or v.elems[0].kind != 'f':
                raise Undecided('%s on a non-vector' % name)
            a0 = v.elems[0]
            if k == 'rcp':
                t = atom('rcp_ss', a0.term)
            elif k == 'rsqrt':
                t = atom('rsqrt_ss', a0.term)
            elif k == 'sqrt':
                t = self.rnd(P, sp.sqrt(a0.term))
            else:
                b0 = args[1].elems[0]
                c = flit('olt', a0.term, b0.term) if k == 'min' else flit('olt', b0.term, a0.term)
                t = mk_sel(c, a0.term, b0.term)
            return True, AggV([FpV(a0.bits, t)] + v.elems[1:])
        m = re.match(r'^llvm\.x86\.sse2?\.cmp\.s[sd]$', name)
        if m and len(args) == 3:
            # scalar compare producing an all-ones / all-zeros mask in lane 0 (upper lanes from the first operand)
            a_, b_, imm = args
            ic = self.as_int(imm).term if imm.kind in ('i', 'b') else None
            if a_.kind != 'a' or b_.kind != 'a' or a_.elems[0].kind != 'f' or b_.elems[0].kind != 'f' or ic is None or not ic.is_Integer:
                raise Undecided('%s with a non-constant predicate' % name)
            pred = {0: 'oeq', 1: 'olt', 2: 'ole', 3: 'uno', 4: 'une', 5: 'uge', 6: 'ugt', 7: 'ord'}.get(int(ic) & 7)
            if int(ic) & 7 in (3, 4, 5, 6, 7):
                P.notes.append('no-NaN reading of %s predicate %d' % (name, int(ic)))
            c_ = flit(pred, a_.elems[0].term, b_.elems[0].term)
            bits_ = a_.elems[0].bits
            return True, AggV([FpV(bits_, mk_sel(c_, ALLONES, sp.Integer(0)))] + list(a_.elems[1:]))
        m = re.match(r'^llvm\.x86\.sse2?\.cvt(t?)s[sd]2si(64)?$', name)
        if m and len(args) == 1:
            # scalar float -> signed integer conversion of lane 0: cvtt.. truncates (= fptosi), cvt.. rounds to nearest even under
            # the default MXCSR (= fptosi(rint(.))); out of range / NaN gives the "integer indefinite" 0x80..0, i.e. like fptosi the
            # term only denotes the value for operands whose (rounded) value fits the result type
            v = args[0]
            if v.kind != 'a' or v.elems[0].kind != 'f':
                raise Undecided('%s on a non-vector' % name)
            N = 64 if m.group(2) else 32
            t0 = v.elems[0].term
            if not m.group(1):
                f0 = fold_atom('rint', [norm(t0)])
                t0 = f0 if f0 is not None else atom('rint', t0)
            return True, IntV(N, atom('fptosi%d' % N, t0), sx=True, ux=False, mag=N - 1)
        m = re.match(r'^llvm\.x86\.avx512\.(rcp14|rsqrt14)\.s[sd]$', name)
        if m and len(args) == 4:
            # (a, b, src, mask): lane 0 = estimate of b[0] when mask bit 0 is set (else src[0]); upper lanes from a
            a_, b_, src_, mk = args
            mkc = self.as_int(mk).term if mk.kind in ('i', 'b') else None
            if a_.kind != 'a' or b_.kind != 'a' or b_.elems[0].kind != 'f' or mkc is None or not mkc.is_Integer or not (int(mkc) & 1):
                raise Undecided('%s with a non-constant or cleared mask' % name)
            b0 = b_.elems[0]
            return True, AggV([FpV(b0.bits, atom(m.group(1) + '_ss', b0.term))] + list(a_.elems[1:]))
        if name.startswith(('llvm.memcpy.', 'llvm.memmove.')) or name in ('memcpy', 'memmove'):
            d, s, n = args[0], args[1], args[2]
            if n.kind != 'i' or not n.term.is_Integer:
                raise Undecided('memcpy of non-constant size')
            if d.kind != 'p' or s.kind != 'p' or not _is_int(d.off) or not _is_int(s.off):
                raise Undecided('memcpy with a symbolic address')
            if int(n.term) > 0:
                P.mem = P.mem.write(d.base, d.off, int(n.term), ('copy', s.base, s.off, P.mem))
            return True, (d if rty[0] == 'ptr' else None)
        if name.startswith('llvm.memset.') or name == 'memset':
            d, c, n = args[0], self.as_int(args[1]), args[2]
            if n.kind != 'i' or not n.term.is_Integer or c.term != 0 or d.kind != 'p' or not _is_int(d.off):
                raise Undecided('memset that is not a constant-size zero fill')
            if int(n.term) > 0:
                P.mem = P.mem.write(d.base, d.off, int(n.term), ('zero',))
            return True, (d if rty[0] == 'ptr' else None)
        stem = math_stem(name)
        if stem is None:
            return False, None
        if stem == 'sqrt':
            return True, self.lanewise(lambda a: FpV(a.bits, self.rnd(P, sp.sqrt(a.term))), args[0])
        if stem in MATH1 and len(args) == 1 and name not in self.mod.functions:
            nm = MATH1[stem]
            return True, self.lanewise(lambda a: FpV(a.bits, atom(nm, a.term)), args[0])
        if stem in MATH2 and len(args) == 2 and name not in self.mod.functions:
            nm = MATH2[stem]

            def m2(a, b):
                v0 = fold_atom(nm, [norm(a.term), norm(b.term)])
                return FpV(a.bits, v0 if v0 is not None else atom(nm, a.term, b.term))
            return True, self.lanewise(m2, args[0], args[1])
        if stem in ('fmuladd', 'fma') and len(args) == 3:
            return True, self.lanewise(lambda a, b, c: FpV(a.bits, self.rnd(P, a.term * b.term + c.term)), *args)
        if stem in ('minnum', 'maxnum', 'fmin', 'fmax', 'minimum', 'maximum') and len(args) == 2:
            mn = stem in ('minnum', 'fmin', 'minimum')
            return True, self.lanewise(lambda a, b: FpV(a.bits, mk_sel(flit('olt', a.term, b.term) if mn else flit('olt', b.term, a.term),
                                                                      a.term, b.term)), args[0], args[1])
        m = re.match(r'^llvm\.(smin|smax|umin|umax)\.', name)
        if m:
            k = m.group(1)
            pred = 'slt' if k[0] == 's' else 'ult'

            def mm(a, b):
                c = ilit(pred, a.term, b.term) if k.endswith('min') else ilit(pred, b.term, a.term)
                return self.select(BoolV(c), a, b)
            return True, self.lanewise(mm, args[0], args[1])
        if name.startswith('llvm.abs.'):
            return True, self.lanewise(lambda a: IntV(a.bits, mk_sel(ilit('slt', a.term, 0), -a.term, a.term), a.sx, a.sx, a.mag), args[0])
        m = re.match(r'^llvm\.(fshl|fshr|bswap|ctpop|ctlz|cttz|bitreverse)\.', name)
        if m:
            its = [self.as_int(a) for a in args]
            return True, IntV(rty[1], atom('op_%s%d' % (m.group(1), rty[1]), *[a.term for a in its]))
        return False, None

    # ---------------------------------------------------------------- execution
    def run(self, fn):
        P = Path()
        args = []
        for ty, nm in fn.params:
            rt = self.L.resolve(ty)
            base = nm.lstrip('%').strip('"')
            if rt[0] == 'ptr':
                args.append(PtrV(('arg', nm), 0))
                if rt[1] is not None:
                    try:
                        self.argtypes[('arg', nm)] = self.L.scalars(rt[1])
                    except Undecided:
                        pass
            elif rt[0] in ('int', 'fp'):
                args.append(self.input_scalar(base, rt))
            elif rt[0] == 'vec':
                args.append(AggV([self.input_scalar('%s.%d' % (base, i), rt[2]) for i in range(rt[1])]))
            else:
                raise Undecided('argument %s of type %r' % (nm, rt))
        res = self.exec_fn(fn, args, P, 0)
        return Summary(self, fn, res)

    def exec_fn(self, fn, args, P0, depth):
        if depth > MAX_CALL_DEPTH:
            raise Undecided('call depth')
        if not self.unroll:
            fn.check_loop_free()
        env0 = {}
        for (ty, nm), v in zip(fn.params, args):
            env0[nm] = v
        done = []
        work = [(fn.order[0], 0, None, env0, P0)]
        while work:
            bname, idx, prev, env, P = work.pop()
            blk = fn.blocks[bname]
            ins = blk.ins
            if idx == 0:
                vk = (fn.name, depth, bname)
                P.visits[vk] = P.visits.get(vk, 0) + 1
                if P.visits[vk] > self.max_unroll and self.cut_loops:
                    P.cut = (fn.name, bname)
                    self.cut.append(P)
                    continue
                if P.visits[vk] > self.max_unroll:
                    raise Undecided('%s: loop through %s is not bounded by compile-time constants (more than %d iterations on one path)'
                                    % (fn.name, bname, self.max_unroll))
                # phis first (parallel assignment)
                newv = {}
                while idx < len(ins) and ins[idx].op == 'phi':
                    i = ins[idx]
                    got = None
                    for v, b in i.a['inc']:
                        if b == prev:
                            got = self.val(env, i.a['ty'], v)
                    if got is None:
                        raise Undecided('phi without an entry for the taken edge')
                    newv[i.res] = got
                    idx += 1
                env.update(newv)
            while idx < len(ins):
                i = ins[idx]
                idx += 1
                r = self.step(fn, i, env, P, depth)
                if r is None:
                    continue
                kind = r[0]
                if kind == 'ret':
                    P.ret = r[1]
                    done.append(P)
                    break
                if kind == 'abort':
                    P.aborted = True
                    done.append(P)
                    break
                if kind == 'goto':
                    # r[1]: list of (target, extra guard literals)
                    outs = r[1]
                    for n, (tgt, extra) in enumerate(outs):
                        P2 = P if n == len(outs) - 1 else P.fork()
                        P2.guard += list(extra)
                        e2 = env if n == len(outs) - 1 else dict(env)
                        work.append((tgt, 0, bname, e2, P2))
                    self.npaths += max(0, len(outs) - 1)
                    if self.npaths > self.max_paths:
                        raise Undecided('more than %d control-flow paths' % self.max_paths)
                    break
                if kind == 'callfork':
                    # r[1]: list of (Path, value) continuing after the call
                    outs = r[1]
                    for n, (P2, v) in enumerate(outs):
                        e2 = env if n == len(outs) - 1 else dict(env)
                        if i.res is not None:
                            e2[i.res] = v
                        if P2.aborted:
                            done.append(P2)
                        else:
                            work.append((bname, idx, prev, e2, P2))
                    break
        return done

    def branch_targets(self, P, cond, t, f):
        if cond == TRUE:
            return [(t, [])]
        if cond == FALSE:
            return [(f, [])]
        outs = []
        for g in guard_cases(cond, P.guard):
            outs.append((t, list(g[len(P.guard):])))
        for g in guard_cases(neg(cond), P.guard):
            outs.append((f, list(g[len(P.guard):])))
        if not outs:
            raise Undecided('both directions of a branch are refuted by the path guard')
        return outs

    def step(self, fn, i, env, P, depth):
        op, a = i.op, i.a
        if op == 'unreachable':
            return ('abort',)
        if a is None:
            raise Undecided('unmodelled instruction `%s` in %s' % (op, fn.name))
        V = lambda tv: self.val(env, tv[0], tv[1])
        if op in BINOPS:
            x, y = self.val(env, a['ty'], a['x']), self.val(env, a['ty'], a['y'])
            if op[0] == 'f':
                env[i.res] = self.lanewise(lambda p, q: self.fbin(P, op, p, q), x, y)
            else:
                env[i.res] = self.lanewise(lambda p, q: self.ibin(P, op, a['flags'], p, q), x, y)
            return None
        if op == 'fneg':
            env[i.res] = self.lanewise(lambda p: FpV(p.bits, -p.term), self.val(env, a['ty'], a['x']))
            return None
        if op == 'freeze':
            env[i.res] = self.val(env, a['ty'], a['x'])
            return None
        if op == 'icmp':
            x, y = self.val(env, a['ty'], a['x']), self.val(env, a['ty'], a['y'])

            def ic(p, q):
                if p.kind == 'p' or q.kind == 'p':
                    return BoolV(ilit(a['pred'], self.ptr_term(p), self.ptr_term(q)))
                if p.kind == 'b' and q.kind == 'b':
                    if a['pred'] == 'eq':
                        return BoolV(_b_or([b_and(p.cond, q.cond), b_and(neg(p.cond), neg(q.cond))]))
                    if a['pred'] == 'ne':
                        return BoolV(_b_or([b_and(p.cond, neg(q.cond)), b_and(neg(p.cond), q.cond)]))
                    raise Undecided('ordered comparison of i1')
                p, q = self.as_int(p), self.as_int(q)
                if a['pred'] in ('eq', 'ne'):
                    for u, v in ((p, q), (q, p)):
                        if u.org is not None and u.org[0] == 'signmask' and v.term == 0:
                            anyneg = _b_or([ilit('slt', pv.term, 0) for pv in u.org[1]]) if all(pv.sx for pv in u.org[1]) else None
                            if anyneg is not None:
                                return BoolV(neg(anyneg) if a['pred'] == 'eq' else anyneg)
                return BoolV(ilit(a['pred'], p.term, q.term))
            env[i.res] = self.lanewise(ic, x, y)
            return None
        if op == 'fcmp':
            x, y = self.val(env, a['ty'], a['x']), self.val(env, a['ty'], a['y'])
            if a['pred'][0] == 'u' or a['pred'] in ('one', 'ord'):
                P.notes.append('no-NaN reading of fcmp %s' % a['pred'])
            env[i.res] = self.lanewise(lambda p, q: BoolV(flit(a['pred'], p.term, q.term)), x, y)
            return None
        if op == 'select':
            env[i.res] = self.select(V(a['c']), V(a['x']), V(a['y']))
            return None
        if op in CASTS:
            if op in ('ptrtoint', 'inttoptr'):
                raise Undecided('%s in %s' % (op, fn.name))
            env[i.res] = self.cast(P, op, self.val(env, a['fty'], a['x']), a['fty'], a['tty'])
            return None
        if op == 'load':
            env[i.res] = self.load(P, a['ty'], V(a['p']))
            return None
        if op == 'store':
            self.store(P, a['v'][0], V(a['v']), V(a['p']))
            return None
        if op == 'getelementptr':
            env[i.res] = self.gep(a['sty'], V(a['p']), [(t, self.val(env, t, v)) for t, v in a['idx']])
            return None
        if op == 'alloca':
            if a['cnt'] is not None:
                c = V(a['cnt'])
                if not (c.kind == 'i' and c.term.is_Integer):
                    raise Undecided('variable-size alloca')
            self.nalloca += 1
            env[i.res] = PtrV(('alloca', self.nalloca), 0)
            return None
        if op == 'extractelement':
            v, ix = V(a['v']), V(a['i'])
            if ix.kind != 'i' or not ix.term.is_Integer:
                raise Undecided('extractelement with a variable index')
            env[i.res] = v.elems[int(ix.term)] if v.kind == 'a' else UNDEF
            return None
        if op == 'insertelement':
            v, e, ix = V(a['v']), V(a['e']), V(a['i'])
            if ix.kind != 'i' or not ix.term.is_Integer:
                raise Undecided('insertelement with a variable index')
            n = self.L.resolve(a['v'][0])[1]
            els = list(v.elems) if v.kind == 'a' else [UNDEF] * n
            els[int(ix.term)] = e
            env[i.res] = AggV(els)
            return None
        if op == 'shufflevector':
            x, y = V(a['x']), V(a['y'])
            n = self.L.resolve(a['x'][0])[1]
            xs = x.elems if x.kind == 'a' else [UNDEF] * n
            ys = y.elems if y.kind == 'a' else [UNDEF] * n
            mv = a['m'][1]
            if mv[0] == 'zero':
                mask = [0] * self.L.resolve(a['m'][0])[1]
            elif mv[0] == 'agg':
                mask = [(-1 if e[1][0] == 'undef' else e[1][1]) for e in mv[1]]
            elif mv[0] == 'undef':
                mask = [-1] * self.L.resolve(a['m'][0])[1]
            else:
                raise Undecided('shufflevector mask')
            env[i.res] = AggV([UNDEF if k < 0 else (xs + ys)[k] for k in mask])
            return None
        if op == 'extractvalue':
            v = V(a['v'])
            for k in a['idx']:
                if v.kind == 'u':
                    break
                v = v.elems[k]
            env[i.res] = v
            return None
        if op == 'insertvalue':
            v, e = V(a['v']), V(a['e'])

            def ins(v, ty, idx):
                ty = self.L.resolve(ty)
                n = len(ty[1]) if ty[0] == 'struct' else ty[1]
                els = list(v.elems) if v.kind == 'a' else [UNDEF] * n
                sub = ty[1][idx[0]] if ty[0] == 'struct' else ty[2]
                els[idx[0]] = e if len(idx) == 1 else ins(els[idx[0]], sub, idx[1:])
                return AggV(els)
            env[i.res] = ins(v, a['v'][0], a['idx'])
            return None
        if op == 'br':
            if 'dest' in a:
                return ('goto', [(a['dest'], [])])
            c = V(a['c'])
            if c.kind != 'b':
                raise Undecided('branch on a non-i1 value')
            return ('goto', self.branch_targets(P, c.cond, a['t'], a['f']))
        if op == 'switch':
            v = self.as_int(V(a['v']))
            outs = []
            rest = []
            for (cty, cv), tgt in a['cases']:
                c = self.const(cty, cv)
                l = ilit('eq', v.term, c.term)
                if l == TRUE:
                    return ('goto', [(tgt, [])])
                if l == FALSE:
                    continue
                if consistent(P.guard + rest + [l]):
                    outs.append((tgt, rest + [l]))
                rest = rest + [neg(l)]
            if consistent(P.guard + rest):
                outs.append((a['default'], rest))
            return ('goto', outs)
        if op == 'ret':
            return ('ret', None if a['v'] is None else V(a['v']))
        if op == 'call':
            cal = a['callee']
            if cal[0] == 'cexpr' and cal[1] in ('bitcast', 'addrspacecast') and cal[2][1][0] == 'glob':
                cal = cal[2][1]
            if cal[0] == 'loc':
                # a function pointer loaded from a constant table (vtable of an object whose dynamic type was declared with
                # summary(pointers=...)) resolves to a defined function
                fv = env.get(cal[1])
                if fv is not None and fv.kind == 'p' and fv.base[0] == 'global' and fv.off == 0 and \
                        (fv.base[1] in self.mod.functions or fv.base[1] in self.mod.declared):
                    cal = ('glob', '@' + fv.base[1])
            if cal[0] != 'glob':
                raise Undecided('indirect call in %s' % fn.name)
            name = cal[1][1:].strip('"')
            args = [V(tv) for tv in a['args']]
            if name in NORETURN_CALLS:
                return ('abort',)
            if name in self.mod.functions:
                callee = self.mod.functions[name]
                outs = self.exec_fn(callee, args, P, depth + 1)
                res = []
                for P2 in outs:
                    v = P2.ret
                    P2.ret = None
                    res.append((P2, v))
                if not res:
                    raise Undecided('call of @%s has no path' % name)
                return ('callfork', res)
            ok, v = self.call_known(P, name, args, a['rty'])
            if not ok:
                raise Undecided('call of unknown function @%s in %s' % (name, fn.name))
            if i.res is not None:
                env[i.res] = v
            return None
        raise Undecided('unmodelled instruction `%s` in %s' % (op, fn.name))


# =====================================================================================================
#  summaries
# =====================================================================================================
def scalar_term(v):
    """term of a scalar value (i1 -> Sel(c,1,0); pointer -> &base + off)"""
    if v is None:
        return None
    if v.kind in ('i', 'f'):
        return v.term
    if v.kind == 'b':
        return mk_sel(v.cond, sp.Integer(1), sp.Integer(0))
    if v.kind == 'p':
        if v.base[0] == 'null':
            return sp.sympify(v.off)
        return sym('&' + base_name(v.base)) + v.off
    if v.kind == 'u':
        return None
    raise Undecided('aggregate where a scalar is expected')


def flatten_value(prefix, v, out):
    if v is None:
        return
    if v.kind == 'a':
        for k, e in enumerate(v.elems):
            flatten_value('%s.%d' % (prefix, k), e, out)
    else:
        out[prefix] = v


class Summary:
    """result of Function.summary(): .paths (completed), .aborted (paths ending in unreachable / a noreturn call),
    .outs() slot -> [(guard, term)], .value(slot), .values(slot), .slots(), .load(path, base_arg, off, 'f32')"""

    def __init__(self, interp, fn, paths):
        self.interp = interp
        self.fn = fn
        self.paths = [p for p in paths if not p.aborted]
        self.aborted = [p for p in paths if p.aborted]
        self.cut = list(getattr(interp, 'cut', []))      # only with summary(cut_loops=True): paths set aside at the iteration limit
        self._outs = None
        if not self.paths:
            raise Undecided('%s: no path returns' % fn.name)

    @property
    def nround(self):
        return max(p.nround for p in self.paths)

    @property
    def assumed(self):
        out = []
        for p in self.paths:
            for a in p.assumed:
                if a not in out:
                    out.append(a)
        return out

    @property
    def notes(self):
        out = []
        for p in self.paths:
            for a in p.notes:
                if a not in out:
                    out.append(a)
        return out

    def path_slots(self, p):
        """slot -> scalar value for one path: return value and final content of every non-stack object written"""
        out = {}
        if p.ret is not None:
            flatten_value('ret', p.ret, out)
        it = self.interp
        for base, log in p.mem.logs.items():
            if base[0] == 'alloca':
                continue
            bn = base_name(base)
            final = []   # (off, size, payload) with later writes replacing earlier identical extents
            for (o, s, w) in log:
                keep = []
                for (o2, s2, w2) in final:
                    if _is_int(o) and _is_int(o2):
                        if o2 + s2 <= o or o + s <= o2:
                            keep.append((o2, s2, w2))
                        elif o <= o2 and o2 + s2 <= o + s:
                            continue      # fully overwritten
                        elif isinstance(w2, tuple) and w2[0] in ('zero', 'copy'):
                            # a later store into the middle of a memset / memcpy region: keep the uncovered ends
                            for (lo, hi) in ((o2, min(o, o2 + s2)), (max(o + s, o2), o2 + s2)):
                                if hi > lo:
                                    keep.append((lo, hi - lo, w2 if w2[0] == 'zero' else ('copy', w2[1], w2[2] + (lo - o2), w2[3])))
                        else:
                            raise Undecided('partially overwritten output at %s[%s]' % (bn, o2))
                    else:
                        d = sp.expand(sp.sympify(o) - sp.sympify(o2))
                        if d == 0 and s == s2:
                            continue
                        if d.is_Integer and (int(d) >= s2 or -int(d) >= s):
                            keep.append((o2, s2, w2))
                        else:
                            raise Undecided('outputs at %s[%s] and %s[%s] may overlap' % (bn, o, bn, o2))
                final = keep + [(o, s, w)]
            for (o, s, w) in final:
                if isinstance(w, tuple) and w[0] == 'zero':
                    out['%s[%s..+%d]' % (bn, o, s)] = IntV(8, sp.Integer(0), True, True, 0)
                elif isinstance(w, tuple) and w[0] == 'copy':
                    self._expand_copy(out, bn, o, s, w)
                else:
                    out['%s[%s]' % (bn, o)] = w
        return out

    def _expand_copy(self, out, bn, o, s, w):
        """describe a memcpy'd output region by the scalar stores found in its source"""
        _, sbase, soff, smem = w
        pieces = {}

        def collect(mem, base, lo, hi, shift):
            log = mem.logs.get(base, ())
            got = False
            for (o2, s2, w2) in log:
                if not _is_int(o2):
                    raise Undecided('memcpy source with symbolic stores')
                if o2 + s2 <= lo or hi <= o2:
                    continue
                got = True
                if isinstance(w2, tuple) and w2[0] == 'copy':
                    collect(w2[3], w2[1], max(lo, o2) - o2 + w2[2], min(hi, o2 + s2) - o2 + w2[2], shift + o2 - w2[2])
                elif isinstance(w2, tuple):
                    pieces[(o2 + shift, s2)] = w2
                else:
                    if o2 < lo or o2 + s2 > hi:
                        raise Undecided('memcpy cuts a stored scalar')
                    pieces[(o2 + shift, s2)] = w2
            return got
        it = self.interp
        if sbase in it.argtypes and _is_int(soff):
            tl = [(so, t) for (so, t) in it.argtypes[sbase] if soff <= so and so + it.L.size(t) <= soff + s]
            if tl and sum(it.L.size(t) for _, t in tl) == s:
                try:
                    vals = [(so, it.load_scalar(smem, t, sbase, so)) for (so, t) in tl]
                except Undecided:
                    vals = None
                if vals is not None:
                    for (so, v) in vals:
                        out['%s[%s]' % (bn, o + so - soff)] = v
                    return
        if not collect(smem, sbase, soff, soff + s, o - soff) or sbase[0] != 'alloca':
            if sbase[0] != 'alloca':
                out['%s[%s..+%d]' % (bn, o, s)] = FpV(0, atom('copy', sym(base_name(sbase)), soff, s))
                if not pieces:
                    return
        # later pieces win
        for (po, ps), pv in sorted(pieces.items()):
            if isinstance(pv, tuple):
                out['%s[%s..+%d]' % (bn, po, ps)] = IntV(8, sp.Integer(0), True, True, 0)
            else:
                out['%s[%s]' % (bn, po)] = pv

    def outs(self):
        if self._outs is None:
            res = {}
            for p in self.paths:
                for slot, v in self.path_slots(p).items():
                    t = scalar_term(v)
                    if t is None:
                        continue
                    res.setdefault(slot, []).append((tuple(p.guard), t))
            self._outs = res
        return self._outs

    def slots(self):
        return sorted(self.outs())

    def undef_slots(self):
        """slots that some path writes with an `undef` / poison value (the result of computing with a never-written vector lane
        or object); such slots are absent from outs()"""
        res = set()
        for p in self.paths:
            for slot, v in self.path_slots(p).items():
                if v is not None and v.kind == 'u':
                    res.add(slot)
        return sorted(res)

    def values(self, slot):
        """[(guard, term)] of a slot over all paths; KeyError if no path writes it.  A location inside a zero-filled
        region (`out[16..+24]`, from memset / value-initialisation) reads as 0."""
        o = self.outs()
        if slot in o:
            return o[slot]
        m = re.match(r'^(.*)\[(-?\d+)\]$', slot)
        if m:
            res = []
            for k, vs in o.items():
                z = re.match(r'^(.*)\[(-?\d+)\.\.\+(\d+)\]$', k)
                if z and z.group(1) == m.group(1) and int(z.group(2)) <= int(m.group(2)) < int(z.group(2)) + int(z.group(3)):
                    res += [(g, t) for g, t in vs if t == 0]
            if res:
                return res
        raise KeyError(slot)

    def value(self, slot='ret'):
        """the term of a slot that has the same term on every path (Sel nodes may remain)"""
        vs = self.values(slot)
        t0 = vs[0][1]
        if len(vs) != len(self.paths):
            raise Undecided('%s: slot %s is not written on every path' % (self.fn.name, slot))
        for g, t in vs[1:]:
            if sp.expand(t - t0) != 0:
                raise Undecided('%s: slot %s differs between paths; use values()' % (self.fn.name, slot))
        return t0

    def load(self, base_arg, off, ty='f32', path=None):
        """value in final memory of pointer argument `base_arg` (name without %) at byte offset off"""
        tmap = {'f32': ('fp', 32), 'f64': ('fp', 64), 'i32': ('int', 32), 'i64': ('int', 64), 'i8': ('int', 8), 'i16': ('int', 16)}
        p = path or self.paths[0]
        base = None
        for b in p.mem.logs:
            if base_name(b) == base_arg:
                base = b
        if base is None:
            base = ('arg', '%' + base_arg)
        return scalar_term(self.interp.load_scalar(p.mem, tmap[ty], base, off))


def summarize(ir_text, name, **opts):
    """convenience: Module(ir_text).function(name).summary(**opts)"""
    return Module(ir_text).function(name).summary(**opts)


if __name__ == '__main__':
    import sys
    m = Module(open(sys.argv[1]).read())
    names = sys.argv[2:] or sorted(m.functions)
    for nm in names:
        if nm not in m.functions:
            print('%s: not defined' % nm)
            continue
        try:
            s = m.functions[nm].summary()
            print('%s: %d path(s), %d aborted, %d rounded op(s)' % (nm, len(s.paths), len(s.aborted), s.nround))
            for slot, vs in sorted(s.outs().items()):
                for g, t in vs:
                    print('    %-14s %s%s' % (slot, t, ('   if ' + ' & '.join(map(str, g))) if g else ''))
            for a in s.assumed:
                print('    assumed: %s' % a)
        except Undecided as e:
            print('%s: UNDECIDED: %s' % (nm, e))
