"""Verdict plumbing: obligations, violations, known findings, replay files, evidence, exit codes."""
import json
import os
import sys
import time

from .front import VERIF, AnalysisBroken, Front

EVIDENCE_DIR = os.path.join(VERIF, 'evidence')
REPLAY_DIR = os.path.join(EVIDENCE_DIR, 'replay')
KNOWN = os.path.join(VERIF, 'known_findings.json')

TRUSTED_BASE = [
    "clang 14 parser / Sema / CFG builder / JSON dumper",
    "C++11 memory model for std::atomic (default seq_cst) and std::mutex",
    "documented contracts of external primitives (tbb::parallel_for, task_arena::enqueue, omp parallel for, std::vector, allocators)",
    "rkcommon is built from the analysed sources under one of the analysed configurations",
    "the rkstatic rule engine (exercised by the seeded-mutant corpus in /verif/seeded and /verif/mutants)",
]


class Ctx:
    def __init__(self, prop, tier='quick', root='/repo', level='other', replay=None):
        self.prop = prop
        self.tier = tier
        self.root = os.path.abspath(root)
        self.level = level
        self.replay = replay
        self.t0 = time.time()
        self.front = Front(self.root)
        self.obl = []          # obligations
        self.broken_msgs = []
        self.notes = []
        self.assumptions = []
        self.explanation = ''
        self.rule_text = {}
        self.selftest = None
        self.extra = {}
        try:
            self.seed = int(os.environ.get('VERIF_SEED', '0'))
        except ValueError:
            self.seed = 0

    # ------------------------------------------------------------------ recording
    def describe(self, rule, text):
        self.rule_text[rule] = text

    def _add(self, rule, instance, status, detail='', loc='?', key=None, path=None, nontrivial=True):
        self.obl.append({'rule': rule, 'instance': instance, 'status': status, 'detail': detail, 'loc': loc,
                         'key': key, 'path': path or [], 'nontrivial': nontrivial})

    def ok(self, rule, instance, detail='', loc='?', nontrivial=True):
        self._add(rule, instance, 'ok', detail, loc, nontrivial=nontrivial)

    def violation(self, rule, instance, why, loc='?', key=None, path=None):
        """key: stable identity of this finding (no line numbers): file|function|detail"""
        self._add(rule, instance, 'violation', why, loc, key=key or instance, path=path)

    def undecided(self, rule, instance, why, loc='?'):
        self._add(rule, instance, 'undecided', why, loc)

    def broken(self, msg):
        self.broken_msgs.append(msg)

    def floor(self, rule, count, minimum, reason):
        if count < minimum:
            self.broken('%s: only %d instance(s) found, expected at least %d (%s)' % (rule, count, minimum, reason))

    def note(self, msg):
        self.notes.append(msg)

    def assume(self, msg):
        if msg not in self.assumptions:
            self.assumptions.append(msg)

    # ------------------------------------------------------------------ finish
    def _known(self):
        if not os.path.exists(KNOWN):
            return {}
        data = json.load(open(KNOWN))
        out = {}
        for f in data.get('findings', []):
            if f.get('property') == self.prop:
                out[f['key']] = f
        return out

    def finish(self):
        known = self._known()
        os.makedirs(REPLAY_DIR, exist_ok=True)
        # remove stale replay files of this property
        for fn in os.listdir(REPLAY_DIR):
            if fn.startswith(self.prop + '-'):
                try:
                    os.unlink(os.path.join(REPLAY_DIR, fn))
                except OSError:
                    pass
        viol = [o for o in self.obl if o['status'] == 'violation']
        und = [o for o in self.obl if o['status'] == 'undecided']
        # de-duplicate violations by key (same defect seen through several instantiations/configs)
        bykey = {}
        for v in viol:
            bykey.setdefault(v['key'], []).append(v)
        new = []
        known_hit = []
        out = []
        for k, vs in bykey.items():
            kf = known.get(k)
            v = vs[0]
            if kf is not None and kf.get('status') == 'known':
                known_hit.append(k)
                for x in vs:
                    x['status'] = 'known'
                out.append('KNOWN-FINDING: property=%s %s: %s [%s] (%s)' % (self.prop, v['rule'], v['detail'], v['loc'], k))
            else:
                n = len(new)
                rp = os.path.join(REPLAY_DIR, '%s-%d.json' % (self.prop, n))
                json.dump({'property': self.prop, 'rule': v['rule'], 'key': k, 'instance': v['instance'],
                           'loc': v['loc'], 'why': v['detail'], 'path': v['path'],
                           'also_seen_in': [x['instance'] for x in vs[1:]][:20],
                           'rule_text': self.rule_text.get(v['rule'], '')}, open(rp, 'w'), indent=1)
                new.append((k, v, rp))
        for k, v, rp in new:
            out.append('%s: %s: %s: %s [key=%s]' % (v['loc'], v['rule'], v['instance'], v['detail'], k))
            for step in v['path'][:40]:
                out.append('    path: %s' % (step,))
            out.append('VIOLATION property=%s replay=%s' % (self.prop, rp))
        for k, kf in known.items():
            if kf.get('status') == 'known' and k not in known_hit:
                out.append('note: known finding no longer reproduces: %s' % k)
        for o in und:
            out.append('UNDECIDED %s: %s: %s: %s' % (o['loc'], o['rule'], o['instance'], o['detail']))
        for m in self.broken_msgs:
            out.append('ANALYSIS-BROKEN property=%s %s' % (self.prop, m))
        code = 0
        if new:
            code = 1
        elif und or self.broken_msgs:
            code = 2
        self._write_evidence(len(new), known_hit, code)
        for n in self.notes:
            out.append('note: ' + n)
        n_ok = sum(1 for o in self.obl if o['status'] == 'ok')
        out.append('%s [%s] %d obligations: %d ok, %d known finding(s), %d new violation(s), %d undecided; %d unit parse(s); %.1fs'
                   % (self.prop, self.tier, len(self.obl), n_ok, len(known_hit), len(new), len(und),
                      len(self.front.parsed), time.time() - self.t0))
        print('\n'.join(out))
        return code

    def _write_evidence(self, n_new, known_hit, code):
        os.makedirs(EVIDENCE_DIR, exist_ok=True)
        rules = {}
        for o in self.obl:
            r = rules.setdefault(o['rule'], {'instances': 0, 'ok': 0, 'violation': 0, 'known': 0, 'undecided': 0})
            r['instances'] += 1
            r[o['status']] += 1
        for r, t in self.rule_text.items():
            if r in rules:
                rules[r]['rule'] = t
        distinct = len({(o['rule'], o['instance']) for o in self.obl if o['nontrivial']})
        samples = []
        seen_rules = set()
        for o in self.obl:  # one sample per rule first, then fill
            if o['rule'] not in seen_rules:
                seen_rules.add(o['rule'])
                samples.append({k: o[k] for k in ('rule', 'instance', 'status', 'loc', 'detail')})
        for o in self.obl:
            if len(samples) >= 40:
                break
            s = {k: o[k] for k in ('rule', 'instance', 'status', 'loc', 'detail')}
            if s not in samples:
                samples.append(s)
        n_ok = sum(1 for o in self.obl if o['status'] == 'ok')
        cov = {
            'evaluations': len(self.obl),
            'distinct_nontrivial': distinct,
            'rule': 'one evaluation = one rule instance (rule x function/call site/record x configuration) decided on '
                    'the parsed program; distinct = distinct (rule, instance) pairs in which the rule tracked at least '
                    'one event or operand of the anchored code',
            'samples': samples,
            'obligations': len(self.obl),
            'discharged': n_ok,
            'checker_cmd': './check %s --tier %s' % (self.prop, self.tier),
            'trusted_base': TRUSTED_BASE,
            'explanation': self.explanation,
            'exhaustive': False,
            'rules': rules,
            'units_parsed': self.front.parsed,
            'known_findings_reproduced': known_hit,
            'undecided': [o['instance'] for o in self.obl if o['status'] == 'undecided'],
            'analysis_broken': self.broken_msgs,
            'exit_code': code,
            'analysed_root': self.root,
        }
        cov.update(self.extra)
        if self.selftest is not None:
            cov['self_test'] = self.selftest
        ev = {
            'property_id': self.prop,
            'tier': self.tier,
            'seed': self.seed,
            'level': self.level,
            'coverage': cov,
            'assumptions': self.assumptions,
            'wall_s': round(time.time() - self.t0, 2),
            'violations': n_new,
        }
        path = os.path.join(EVIDENCE_DIR, '%s.json' % self.prop)
        if self.root != '/repo':
            # analysing a scratch tree (self-test / seeded mutant): never overwrite the evidence of /repo
            path = os.path.join(EVIDENCE_DIR, 'scratch-%s.json' % self.prop)
        tmp = path + '.tmp%d' % os.getpid()
        json.dump(ev, open(tmp, 'w'), indent=1)
        os.replace(tmp, path)
