"""Checker self-test (thorough tier): every patch in mutants/<id>/ must make the check fire naming the
expected instance; every patch in benign/<id>/ must leave it silent.  Patches are applied to a scratch
copy of the *current* /repo tree (outside /repo and /verif), which is removed afterwards.

refactors/<id>-R<k>/patch.diff are behaviour-preserving changes written by independent sub-agents that saw only the
property text: the check must not report a violation on them (exit 2 = undecided is recorded, not counted as an alarm).

Patch header lines (before the diff):
    # expect: <substring that must occur in a reported violation line (rule id, key or message)>
    # about:  <one line: what the edit breaks / why it is benign>
"""
import glob
import os
import re
import shutil
import subprocess
import tempfile

from .front import VERIF


def _scratch(root):
    d = tempfile.mkdtemp(prefix='rkverif-scratch-')
    subprocess.check_call(['rsync', '-a', '--exclude', '_build', '--exclude', '.git', root.rstrip('/') + '/', d + '/'])
    return d


def run_one(prop, patch, root='/repo', expect_fire=True):
    txt = open(patch).read()
    m = re.search(r'^#\s*expect:\s*(.+)$', txt, re.M)
    expect = m.group(1).strip() if m else None
    d = _scratch(root)
    try:
        r = subprocess.run(['git', 'apply', '--unsafe-paths', '--directory=' + d, patch], cwd='/', capture_output=True, text=True)
        if r.returncode != 0:
            r = subprocess.run(['patch', '-p1', '-s', '-d', d, '-i', patch], capture_output=True, text=True)
            if r.returncode != 0:
                return {'patch': os.path.basename(patch), 'result': 'skipped', 'why': 'does not apply to the current tree'}
        r = subprocess.run([os.path.join(VERIF, 'check'), prop, '--tier', 'quick', '--root', d, '--no-selftest'],
                           capture_output=True, text=True, cwd=VERIF)
        out = r.stdout
        fired = [l for l in out.splitlines() if l.startswith('VIOLATION') or ': R-' in l or ': W-' in l]
        if expect_fire:
            if r.returncode != 1:
                return {'patch': os.path.basename(patch), 'result': 'MISSED', 'exit': r.returncode, 'tail': out[-600:]}
            if expect and not any(expect in l for l in out.splitlines()):
                return {'patch': os.path.basename(patch), 'result': 'WRONG-INSTANCE', 'expect': expect, 'tail': out[-900:]}
            return {'patch': os.path.basename(patch), 'result': 'caught', 'report': (fired[0] if fired else '')[:300]}
        if r.returncode == 1:
            return {'patch': os.path.basename(patch), 'result': 'FALSE-ALARM', 'exit': r.returncode, 'tail': out[-900:]}
        if r.returncode != 0:
            return {'patch': os.path.basename(patch), 'result': 'UNDECIDED', 'exit': r.returncode, 'tail': out[-900:]}
        return {'patch': os.path.basename(patch), 'result': 'silent'}
    finally:
        shutil.rmtree(d, ignore_errors=True)
        for f in glob.glob(os.path.join(VERIF, 'build', 'gen-*')) + glob.glob(os.path.join(VERIF, 'build', 'facts-*')):
            pass  # generated headers are tiny; left for reuse


def run(ctx):
    """called by rule modules at the end of run() in the thorough tier"""
    if ctx.tier != 'thorough' or getattr(ctx, 'no_selftest', False) or ctx.root != '/repo':
        return
    from concurrent.futures import ThreadPoolExecutor
    jobs = []
    for p in sorted(glob.glob(os.path.join(VERIF, 'mutants', ctx.prop, '*.patch'))):
        jobs.append((p, True))
    for p in sorted(glob.glob(os.path.join(VERIF, 'benign', ctx.prop, '*.patch'))):
        jobs.append((p, False))
    for p in sorted(glob.glob(os.path.join(VERIF, 'seeded', ctx.prop + '-*', 'patch.diff'))):
        jobs.append((p, True))
    for p in sorted(glob.glob(os.path.join(VERIF, 'refactors', ctx.prop + '-R*', 'patch.diff'))):
        jobs.append((p, False))
    with ThreadPoolExecutor(max_workers=12) as ex:
        res = list(ex.map(lambda j: dict(run_one(ctx.prop, j[0], ctx.root, j[1]), kind='mutant' if j[1] else 'benign',
                                         path=os.path.relpath(j[0], VERIF)), jobs))
    ctx.selftest = {'mutants_caught': sum(1 for r in res if r['result'] == 'caught'),
                    'mutants_missed': [r for r in res if r['result'] in ('MISSED', 'WRONG-INSTANCE')],
                    'benign_silent': sum(1 for r in res if r['result'] == 'silent'),
                    'benign_false_alarm': [r for r in res if r['result'] == 'FALSE-ALARM'],
                    'benign_undecided': [r['path'] for r in res if r['result'] == 'UNDECIDED'],
                    'skipped': [r['path'] for r in res if r['result'] == 'skipped'],
                    'results': res}
    for r in res:
        if r['result'] in ('MISSED', 'WRONG-INSTANCE', 'FALSE-ALARM'):
            ctx.note('self-test %s: %s %s' % (r['result'], r['path'], r.get('expect', '')))
