"""Index over one translation unit's fact file (JSON AST + side table + CFGs)."""
import re

from .cfg import CFG

TRANSPARENT = {'ImplicitCastExpr', 'ParenExpr', 'ExprWithCleanups', 'MaterializeTemporaryExpr',
               'CXXBindTemporaryExpr', 'ConstantExpr', 'SubstNonTypeTemplateParmExpr', 'FullExpr'}
CASTS = {'CStyleCastExpr', 'CXXStaticCastExpr', 'CXXReinterpretCastExpr', 'CXXConstCastExpr',
         'CXXFunctionalCastExpr'}


class TU:
    def __init__(self, data, unit='', config='', root='/repo'):
        self.unit = unit
        self.config = config
        self.root = root
        self.files = data.get('files', [])
        self.side = data.get('side', {})
        self.nodes = {}
        self.parent = {}
        self.decls = data.get('decls', [])
        for d in self.decls:
            self._index(d, None)
        self.functions = {f['id']: f for f in data.get('functions', [])}
        self.records = {r['id']: r for r in data.get('records', [])}
        self.records_by_type = {}
        for r in self.records.values():
            self.records_by_type.setdefault(r['type'], r)
        self.cfgs = {}
        for c in data.get('cfgs', []):
            self.cfgs[c['fn']] = CFG(c, self)
        self._by_q = {}
        for f in self.functions.values():
            self._by_q.setdefault(f['q'], []).append(f)

    def _index(self, n, parent):
        stack = [(n, parent)]
        while stack:
            n, parent = stack.pop()
            if not isinstance(n, dict):
                continue
            i = n.get('id')
            if i is not None and i not in self.nodes:
                self.nodes[i] = n
                if parent is not None:
                    self.parent[i] = parent
            for k in n.get('inner', ()):
                stack.append((k, i if i is not None else parent))

    # ------------------------------------------------------------------ basic access
    def node(self, i):
        return self.nodes.get(i)

    def par(self, n):
        i = n['id'] if isinstance(n, dict) else n
        p = self.parent.get(i)
        return self.nodes.get(p) if p else None

    @staticmethod
    def kids(n):
        return [k for k in n.get('inner', ()) if isinstance(k, dict) and k.get('kind')]

    def walk(self, n):
        stack = [n]
        while stack:
            x = stack.pop()
            if not isinstance(x, dict):
                continue
            yield x
            stack.extend(reversed(x.get('inner', ())))

    def strip(self, n, casts=False):
        """Skip nodes without semantic effect (implicit casts, parens, temporaries, elidable copies)."""
        while n is not None:
            k = n.get('kind')
            if k in TRANSPARENT or (casts and k in CASTS):
                ks = self.kids(n)
                if not ks:
                    return n
                n = ks[-1] if k in CASTS else ks[0]
                continue
            if k == 'CXXConstructExpr' and n.get('elidable') and len(self.kids(n)) == 1:
                n = self.kids(n)[0]
                continue
            return n
        return n

    def sd(self, n):
        if n is None:
            return {}
        return self.side.get(n.get('id') if isinstance(n, dict) else n, {})

    def loc(self, n):
        s = self.sd(n)
        if 'f' in s:
            f = self.files[s['f']]
            return '%s:%d' % (self.rel(f), s['l'])
        return '?'

    def line(self, n):
        return self.sd(n).get('l', 0)

    def rel(self, path):
        if path.startswith(self.root + '/'):
            return path[len(self.root) + 1:]
        return path

    def fn_loc(self, f):
        return '%s:%d' % (self.rel(self.files[f['f']]), f['l'])

    def fn_file(self, f):
        return self.rel(self.files[f['f']])

    # ------------------------------------------------------------------ functions
    def fns(self, q=None, rx=None, dep=None):
        out = []
        if q is not None:
            out = list(self._by_q.get(q, ()))
        else:
            r = re.compile(rx)
            out = [f for f in self.functions.values() if r.search(f['q'])]
        if dep is not None:
            out = [f for f in out if f['dep'] == dep]
        return out

    def body(self, f):
        return self.nodes.get(f['body'])

    def cfg(self, f):
        return self.cfgs.get(f['id'] if isinstance(f, dict) else f)

    def fn_of_decl(self, declid):
        """function entry for a callee decl id (following 'def' to the definition if needed)"""
        return self.functions.get(declid)

    def callee_fn(self, call):
        s = self.sd(call)
        d = s.get('def') or s.get('d')
        return self.functions.get(d)

    def enclosing_fn(self, n):
        i = n['id'] if isinstance(n, dict) else n
        while i is not None:
            x = self.nodes.get(i)
            if x is not None and x.get('kind') in ('FunctionDecl', 'CXXMethodDecl', 'CXXConstructorDecl',
                                                   'CXXDestructorDecl', 'CXXConversionDecl'):
                return x
            i = self.parent.get(i)
        return None

    # ------------------------------------------------------------------ expression helpers
    def call_parts(self, call):
        """(callee-side-entry, object-expr-or-None, [args]) of a call-like node."""
        k = call.get('kind')
        ks = self.kids(call)
        s = self.sd(call)
        if k == 'CXXMemberCallExpr':
            me = self.strip(ks[0])
            obj = self.kids(me)[0] if me.get('kind') == 'MemberExpr' and self.kids(me) else None
            return s, obj, ks[1:]
        if k == 'CXXOperatorCallExpr':
            args = ks[1:]
            if s.get('rec') and args:
                return s, args[0], args[1:]
            return s, None, args
        if k == 'CXXConstructExpr' or k == 'CXXTemporaryObjectExpr':
            return s, None, ks
        if k == 'CallExpr':
            return s, None, ks[1:]
        return s, None, ks

    def is_this(self, n):
        n = self.strip(n)
        return n is not None and n.get('kind') == 'CXXThisExpr'

    def member_of_this(self, n):
        """field name if n is `this->f` / `f` (implicit this), else None"""
        n = self.strip(n)
        if n is None or n.get('kind') != 'MemberExpr':
            return None
        ks = self.kids(n)
        if ks and self.is_this(ks[0]):
            return n.get('name')
        return None

    def ref_decl(self, n):
        """decl id referenced by a DeclRefExpr (after stripping)"""
        n = self.strip(n)
        if n is not None and n.get('kind') == 'DeclRefExpr':
            rd = n.get('referencedDecl', {})
            return rd.get('id')
        return None

    def show(self, n, depth=0):
        """compact one-line rendering of an expression, for diagnostics"""
        if n is None:
            return '<null>'
        n = self.strip(n)
        k = n.get('kind')
        ks = self.kids(n)
        if depth > 8:
            return '...'
        sh = lambda x: self.show(x, depth + 1)
        if k == 'DeclRefExpr':
            return n.get('referencedDecl', {}).get('name', '?')
        if k == 'MemberExpr':
            b = sh(ks[0]) if ks else 'this'
            if b == 'this':
                return n.get('name', '?')
            return '%s.%s' % (b, n.get('name', '?'))
        if k == 'CXXThisExpr':
            return 'this'
        if k in ('IntegerLiteral', 'FloatingLiteral'):
            return str(n.get('value'))
        if k == 'CXXBoolLiteralExpr':
            return 'true' if n.get('value') else 'false'
        if k == 'StringLiteral':
            return n.get('value', '""')
        if k == 'CharacterLiteral':
            return repr(chr(n.get('value', 63)))
        if k == 'CXXNullPtrLiteralExpr':
            return 'nullptr'
        if k == 'BinaryOperator' or k == 'CompoundAssignOperator':
            return '(%s %s %s)' % (sh(ks[0]), n.get('opcode'), sh(ks[1]))
        if k == 'UnaryOperator':
            if n.get('isPostfix'):
                return '%s%s' % (sh(ks[0]), n.get('opcode'))
            return '%s%s' % (n.get('opcode'), sh(ks[0]))
        if k == 'ConditionalOperator':
            return '(%s ? %s : %s)' % tuple(sh(x) for x in ks[:3])
        if k == 'ArraySubscriptExpr':
            return '%s[%s]' % (sh(ks[0]), sh(ks[1]))
        if k in ('CXXMemberCallExpr', 'CXXOperatorCallExpr', 'CallExpr', 'CXXConstructExpr',
                 'CXXTemporaryObjectExpr'):
            s, obj, args = self.call_parts(n)
            name = s.get('q', '?').split('::')[-1]
            a = ', '.join(sh(x) for x in args)
            if obj is not None:
                return '%s.%s(%s)' % (sh(obj), name, a)
            return '%s(%s)' % (name, a)
        if k in CASTS:
            return '(%s)%s' % (n.get('type', {}).get('qualType', '?'), sh(ks[-1]) if ks else '')
        if k == 'CXXNewExpr':
            return 'new ' + self.sd(n).get('aty', '?')
        if k == 'CXXDeleteExpr':
            return 'delete ' + (sh(ks[0]) if ks else '')
        if k == 'CXXThrowExpr':
            return 'throw ' + (sh(ks[0]) if ks else '')
        if k == 'ReturnStmt':
            return 'return ' + (sh(ks[0]) if ks else '')
        if k == 'DeclStmt':
            return 'decl ' + ','.join(x.get('name', '?') for x in ks)
        if k == 'LambdaExpr':
            return '[lambda]'
        if k == 'CXXDependentScopeMemberExpr':
            b = sh(ks[0]) if ks else 'this'
            return '%s.%s' % (b, n.get('member', '?'))
        return k or '?'
