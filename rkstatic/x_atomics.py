"""Shared helpers for rules about std::atomic counters (C08, C19): classification of operations on an atomic
object, acyclic CFG path enumeration, a tiny integer evaluator for branch conditions over an RMW result."""
import re

CALLS = ('CXXMemberCallExpr', 'CXXOperatorCallExpr', 'CallExpr')

RMW = {'operator++': +1, 'operator--': -1, 'fetch_add': +1, 'fetch_sub': -1, 'operator+=': +1, 'operator-=': -1}
ATOMIC_INT = re.compile(r'^std::atomic<((un)?signed |)(long long|long|int|short|char|__int128)( int)?>$|'
                        r'^std::atomic<(unsigned|size_t|std::size_t|unsigned long long|unsigned long|unsigned int)>$')
PLAIN_INT = re.compile(r'^((un)?signed |)(long long|long|int|short|char|unsigned)( int)?$')


def atomic_call(tu, n, counter_ids):
    """counter_ids: set of decl ids of the atomic object, or a predicate over the side-table entry of the object expression"""
    if n.get('kind') not in CALLS:
        return None
    sd, obj, args = tu.call_parts(n)
    q = sd.get('q', '')
    if not re.match(r'std::(__atomic_base|atomic)<', q) or obj is None:
        return None
    o = tu.strip(obj, casts=True)
    if o is None:
        return None
    if callable(counter_ids):
        if not counter_ids(tu.sd(o)):
            return None
    elif tu.sd(o).get('d') not in counter_ids:
        return None
    name = q.split('::')[-1]
    if name in RMW:
        sign = RMW[name]
        if name in ('operator++', 'operator--'):
            return ('rmw', sign, 'old' if args else 'new', None)
        if not args:
            return ('other', name)
        cv = tu.sd(tu.strip(args[0])).get('cv') or tu.sd(args[0]).get('cv')
        if cv is None:
            return ('other', name)
        mo = None
        if len(args) > 1 and tu.strip(args[1]).get('kind') != 'CXXDefaultArgExpr':
            mo = tu.sd(tu.strip(args[1])).get('cv') or tu.sd(args[1]).get('cv') or '?'
        return ('rmw', sign * int(cv), 'old' if name.startswith('fetch_') else 'new', mo)
    if name == 'load' or name.startswith('operator ') :
        return ('load',)
    if name in ('store', 'operator=', 'exchange', 'compare_exchange_weak', 'compare_exchange_strong',
                'fetch_and', 'fetch_or', 'fetch_xor', 'operator&=', 'operator|=', 'operator^='):
        return ('write', name)
    return ('other', name)


def init_exprs(tu, decl):
    """children of a field / variable declaration that are expressions (documentation comments and attributes attached to
    the declaration are children too and must not be mistaken for its initialiser)"""
    return [k for k in tu.kids(decl) if not (k.get('kind', '').endswith('Comment') or k.get('kind', '').endswith('Attr'))]


def call_mo(tu, n, index):
    """explicit memory-order argument (as the integer value of std::memory_order, a string) of a call, None if defaulted,
    '?' if not a constant.  relaxed=0 consume=1 acquire=2 release=3 acq_rel=4 seq_cst=5"""
    sd, obj, args = tu.call_parts(n)
    if len(args) <= index:
        return None
    a = tu.strip(args[index])
    if a is None or a.get('kind') == 'CXXDefaultArgExpr':
        return None
    return tu.sd(a).get('cv') or tu.sd(args[index]).get('cv') or '?'


def fence_mo(tu, n):
    """memory order of a std::atomic_thread_fence call, else None"""
    if n.get('kind') == 'CallExpr' and tu.sd(n).get('q') == 'std::atomic_thread_fence':
        return call_mo(tu, n, 0) or '?'
    return None


def cfg_paths(g, limit=256):
    """all acyclic entry->exit paths as lists of (block, taken successor index)"""
    out = []

    def go(b, acc):
        if len(out) > limit:
            return
        blk = g.blocks[b]
        if b == g.exit:
            out.append(list(acc))
            return
        succ = [(i, s) for i, s in enumerate(blk.succ) if s is not None]
        if not succ:
            if blk.noret:
                return
            out.append(list(acc) + [(blk, None)])
            return
        for i, s in succ:
            go(s, acc + [(blk, i if len(blk.succ) == 2 else None)])
    go(g.entry, [])
    return out


def cfg_paths_unrolled(g, limit=512):
    """entry->exit paths in a CFG with loops: every back edge is taken at most once per path (each loop body is seen
    zero times and once), as lists of (block, taken successor index)"""
    back = set(g.back_edges())
    out = []

    def go(b, acc, used):
        if len(out) > limit:
            return
        blk = g.blocks[b]
        if b == g.exit:
            out.append(list(acc))
            return
        succ = [(i, s) for i, s in enumerate(blk.succ) if s is not None]
        if not succ:
            if not blk.noret:
                out.append(list(acc) + [(blk, None)])
            return
        for i, s in succ:
            e = (b, s)
            if e in back:
                if e in used:
                    continue
                go(s, acc + [(blk, i if len(blk.succ) == 2 else None)], used | {e})
            else:
                go(s, acc + [(blk, i if len(blk.succ) == 2 else None)], used)
    go(g.entry, [], frozenset())
    return out


def loop_blocks(g):
    """ids of all blocks inside a natural loop"""
    preds = g.preds()
    loop = set()
    for (t, h) in g.back_edges():
        body = {h}
        work = [t]
        while work:
            x = work.pop()
            if x in body:
                continue
            body.add(x)
            work.extend(preds[x])
        loop |= body
    return loop


WIDTH64 = re.compile(r'^std::atomic<((un)?signed |)(long long|long|__int128)( int)?>$|'
                     r'^std::atomic<(size_t|std::size_t|unsigned long long|unsigned long|std::int64_t|std::uint64_t|int64_t|uint64_t|'
                     r'std::ptrdiff_t|ptrdiff_t|std::intptr_t|std::uintptr_t)>$')


def free_atoms(tu, e, env, depth=0):
    """leaves of a boolean/integer expression that int_eval cannot evaluate under env (members, variables, calls): candidates
    for 'either value is possible'.  Returns a list of (stripped) nodes, None if the expression has an unsupported operator"""
    e = tu.strip(e)
    if e is None or depth > 12:
        return None
    if e['id'] in env:
        return []
    k = e.get('kind')
    if tu.sd(e).get('cv') is not None and k not in CALLS:
        return []
    if k in ('CStyleCastExpr', 'CXXStaticCastExpr', 'CXXFunctionalCastExpr'):
        return free_atoms(tu, tu.kids(e)[-1], env, depth + 1)
    if k == 'CXXBoolLiteralExpr':
        return []
    if k == 'DeclRefExpr':
        return [] if e.get('referencedDecl', {}).get('id') in env else [e]
    if k in ('MemberExpr',) + CALLS:
        return [e]
    if k == 'UnaryOperator' and e.get('opcode') in ('!', '-', '+'):
        return free_atoms(tu, tu.kids(e)[0], env, depth + 1)
    if k == 'BinaryOperator' and e.get('opcode') in ('==', '!=', '<', '<=', '>', '>=', '+', '-', '&&', '||'):
        a = free_atoms(tu, tu.kids(e)[0], env, depth + 1)
        b = free_atoms(tu, tu.kids(e)[1], env, depth + 1)
        return None if a is None or b is None else a + b
    return None


def int_eval(tu, e, env, depth=0):
    """evaluate an integer/boolean expression over `env` = {node id of the RMW call: value, var decl id: value}"""
    e = tu.strip(e)
    if e is None or depth > 12:
        return None
    if e['id'] in env:
        return env[e['id']]
    k = e.get('kind')
    cv = tu.sd(e).get('cv')
    if cv is not None and k not in CALLS:
        try:
            return int(cv)
        except ValueError:
            return None
    if k in ('CStyleCastExpr', 'CXXStaticCastExpr', 'CXXFunctionalCastExpr'):
        v = int_eval(tu, tu.kids(e)[-1], env, depth + 1)
        if v is not None and tu.sd(e).get('ct') == 'bool':
            return int(v != 0)
        return v
    if k == 'CXXBoolLiteralExpr':
        return int(bool(e.get('value')))
    if k == 'DeclRefExpr':
        return env.get(e.get('referencedDecl', {}).get('id'))
    if k == 'UnaryOperator':
        v = int_eval(tu, tu.kids(e)[0], env, depth + 1)
        if v is None:
            return None
        return {'!': int(not v), '-': -v, '+': v}.get(e.get('opcode'))
    if k == 'BinaryOperator':
        a = int_eval(tu, tu.kids(e)[0], env, depth + 1)
        b = int_eval(tu, tu.kids(e)[1], env, depth + 1)
        if a is None or b is None:
            return None
        op = e.get('opcode')
        f = {'==': lambda: int(a == b), '!=': lambda: int(a != b), '<': lambda: int(a < b), '<=': lambda: int(a <= b),
             '>': lambda: int(a > b), '>=': lambda: int(a >= b), '+': lambda: a + b, '-': lambda: a - b,
             '&&': lambda: int(bool(a) and bool(b)), '||': lambda: int(bool(a) or bool(b))}.get(op)
        return f() if f else None
    return None


