"""x_expr - normal forms of scalar expressions and comparisons (shared helper, no rkcommon specifics).

Three layers, each usable on its own:

1.  ``Poly`` - canonical multivariate polynomial with exact rational coefficients over *atoms*.
    An atom is any hashable Python value (normally a tagged tuple such as ``('param', 'n')`` or
    ``('call', 'f', ...)``).  ``+`` and ``*`` are commutative/associative by construction, so
    ``a*b + c``, ``c + b*a`` and ``(c) + a*(b)`` are the same object value.  Operations outside the
    ring (integer division, remainder, shifts, bit operations) become *opaque atoms* whose operands are
    themselves canonical (``Poly.op('div', a, b)``), so ``x / (a+b)`` == ``x / (b+a)``.

2.  ``Rel`` - canonical comparison ``p  OP  0`` with ``OP`` in ``>=``, ``==``, ``!=`` (integer domain) :
    everything is moved to one side, strict inequalities over the integers are made non-strict
    (``a < b``  ==  ``b - a - 1 >= 0``), the polynomial is divided by the gcd of its coefficients and the
    sign of equalities is fixed.  Hence ``a < b`` == ``b > a`` == ``!(a >= b)`` == ``a + 1 <= b``.
    ``Rel.decide(bounds)`` evaluates the comparison by interval arithmetic under per-atom bounds
    (exact for polynomials that are linear in every atom and mention each atom once) and returns
    True / False / None; ``Rel.tighten(bounds, want)`` refines the bound of the single atom of a linear
    comparison for the edge on which the comparison has the truth value ``want``.
    These are *mathematical* integers: the caller must make sure that the operands cannot wrap (see
    ``Normalizer.modular``), otherwise ``n - m > 0`` would wrongly be identified with ``n > m``.

3.  ``Normalizer`` - clang JSON AST (through a ``rkstatic.tu.TU``) -> ``Poly`` / Boolean normal form.
    Leaves (variables, members, calls) are delegated to ``leaf(node)``, which a rule or an abstract
    interpreter overrides to substitute known values.  Compile-time constants are taken from the plugin's
    side table (``cv``), so ``sizeof(T)``, enumerators and constexpr calls fold.  Every arithmetic node of
    unsigned type whose operands are not both constants is appended to ``self.modular`` - the places
    where C++ arithmetic may differ from integer arithmetic; the user discharges them (range argument)
    or reports the instance as undecided.

Boolean normal form (``Normalizer.cond``): nested tuples
    ``('rel', Rel)`` | ``('val', Poly)`` (truthiness of a scalar: ``p != 0``) | ``('not', x)`` |
    ``('and', x, y)`` | ``('or', x, y)``; ``nnf`` pushes negations to the leaves (De Morgan, ``Rel.negate``)
    and ``bool_key`` gives an order-insensitive key for ``and``/``or``.
"""
from fractions import Fraction
from math import gcd

INF = float('inf')


def _akey(a):
    return repr(a)


class Poly:
    """immutable canonical polynomial: dict {monomial: coef}, monomial = tuple of (atom, power) sorted"""
    __slots__ = ('t', '_h')

    def __init__(self, terms=None):
        items = []
        if terms:
            for m, c in terms.items():
                if c != 0:
                    items.append((m, Fraction(c)))
        items.sort(key=lambda mc: tuple((_akey(a), p) for a, p in mc[0]))
        self.t = tuple(items)
        self._h = hash(self.t)

    # ---- constructors
    @staticmethod
    def const(c):
        return Poly({(): Fraction(c)})

    @staticmethod
    def atom(a):
        return Poly({((a, 1),): Fraction(1)})

    @staticmethod
    def op(name, *args):
        """opaque operation on canonical operands; folds when every operand is constant and the op is known"""
        cs = [a.as_const() if isinstance(a, Poly) else None for a in args]
        if all(c is not None and c.denominator == 1 for c in cs) and len(cs) == 2:
            a, b = int(cs[0]), int(cs[1])
            try:
                if name == 'div' and b != 0:
                    q = abs(a) // abs(b)
                    return Poly.const(q if (a >= 0) == (b >= 0) else -q)   # C++ truncation
                if name == 'mod' and b != 0:
                    q = abs(a) // abs(b)
                    q = q if (a >= 0) == (b >= 0) else -q
                    return Poly.const(a - q * b)
                if name == 'and':
                    return Poly.const(a & b)
                if name == 'or':
                    return Poly.const(a | b)
                if name == 'xor':
                    return Poly.const(a ^ b)
                if name == 'shl' and 0 <= b < 128:
                    return Poly.const(a << b)
                if name == 'shr' and 0 <= b < 128:
                    return Poly.const(a >> b)
            except (ValueError, OverflowError):
                pass
        if name in ('min', 'max') and len(cs) == 2 and all(c is not None for c in cs):
            return Poly.const(min(cs) if name == 'min' else max(cs))
        if name in ('min', 'max') and len(args) == 2 and args[0] == args[1]:
            return args[0]
        if name in ('and', 'or', 'xor', 'min', 'max'):      # commutative operations
            args = tuple(sorted(args, key=_akey))
        return Poly.atom((name,) + tuple(args))

    # ---- queries
    def __hash__(self):
        return self._h

    def __eq__(self, o):
        return isinstance(o, Poly) and self.t == o.t

    def __ne__(self, o):
        return not self.__eq__(o)

    def is_const(self):
        return all(m == () for m, _ in self.t)

    def as_const(self):
        if not self.t:
            return Fraction(0)
        if len(self.t) == 1 and self.t[0][0] == ():
            return self.t[0][1]
        return None

    def as_int(self):
        c = self.as_const()
        if c is not None and c.denominator == 1:
            return int(c)
        return None

    def as_atom(self):
        """the atom a if the polynomial is exactly 1*a, else None"""
        if len(self.t) == 1:
            m, c = self.t[0]
            if c == 1 and len(m) == 1 and m[0][1] == 1:
                return m[0][0]
        return None

    def atoms(self, deep=True):
        """atoms mentioned (with deep=True also those nested inside opaque-operation / tuple atoms)"""
        out = []

        def rec(x):
            if isinstance(x, Poly):
                for m, _ in x.t:
                    for a, _p in m:
                        if a not in out:
                            out.append(a)
                        if deep:
                            rec(a)
            elif isinstance(x, tuple):
                for y in x:
                    rec(y)
        rec(self)
        return out

    def linear_in(self, atom):
        """(a, rest) with self == a*atom + rest, a constant, rest not mentioning atom at top level; else None"""
        a = Fraction(0)
        rest = {}
        for m, c in self.t:
            names = [x for x, _ in m]
            if atom in names:
                if m == ((atom, 1),):
                    a += c
                else:
                    return None
            else:
                rest[m] = c
        return a, Poly(rest)

    def const_term(self):
        for m, c in self.t:
            if m == ():
                return c
        return Fraction(0)

    # ---- ring operations
    def __add__(self, o):
        o = _P(o)
        d = dict(self.t)
        for m, c in o.t:
            d[m] = d.get(m, 0) + c
        return Poly(d)

    __radd__ = __add__

    def __neg__(self):
        return Poly({m: -c for m, c in self.t})

    def __sub__(self, o):
        return self + (-_P(o))

    def __rsub__(self, o):
        return _P(o) - self

    def __mul__(self, o):
        o = _P(o)
        d = {}
        for m1, c1 in self.t:
            for m2, c2 in o.t:
                mm = {}
                for a, p in m1 + m2:
                    mm[a] = mm.get(a, 0) + p
                m = tuple(sorted(mm.items(), key=lambda ap: (_akey(ap[0]), ap[1])))
                d[m] = d.get(m, 0) + c1 * c2
        return Poly(d)

    __rmul__ = __mul__

    def subst(self, mapping):
        """replace atoms by polynomials (top level only)"""
        out = Poly()
        for m, c in self.t:
            term = Poly.const(c)
            for a, p in m:
                base = mapping.get(a)
                base = Poly.atom(a) if base is None else _P(base)
                for _ in range(p):
                    term = term * base
            out = out + term
        return out

    # ---- intervals
    def range(self, bounds):
        """(lo, hi) of the polynomial when atom a ranges over bounds(a) -> (lo, hi) (use -INF/INF for unbounded).
        Sound interval arithmetic; exact when every atom occurs once with power 1."""
        lo = hi = Fraction(0)
        for m, c in self.t:
            tlo, thi = Fraction(1), Fraction(1)
            for a, p in m:
                blo, bhi = bounds(a)
                for _ in range(p):
                    cands = [_mul(tlo, blo), _mul(tlo, bhi), _mul(thi, blo), _mul(thi, bhi)]
                    tlo, thi = min(cands), max(cands)
            cands = [_mul(c, tlo), _mul(c, thi)]
            lo, hi = lo + min(cands), hi + max(cands)
        return lo, hi

    # ---- rendering
    def show(self, name=None):
        name = name or (lambda a: a if isinstance(a, str) else show_atom(a))
        if not self.t:
            return '0'
        parts = []
        for m, c in self.t:
            fac = [('%s^%d' % (name(a), p) if p != 1 else name(a)) for a, p in m]
            if not fac:
                s = str(c)
            elif c == 1:
                s = '*'.join(fac)
            elif c == -1:
                s = '-' + '*'.join(fac)
            else:
                s = '%s*%s' % (c, '*'.join(fac))
            parts.append(s)
        return ' + '.join(parts).replace('+ -', '- ')

    __repr__ = show


def show_atom(a):
    if isinstance(a, tuple) and a and isinstance(a[0], str):
        tag = a[0]
        if tag in ('param', 'var', 'glob', 'enum') and len(a) >= 2:
            return str(a[-1]) if tag != 'glob' else str(a[1]).split('::')[-1]
        if tag == 'field':
            return '%s.%s' % (show_atom(a[1]), a[2])
        if tag == 'this':
            return 'this'
        if tag == 'call':
            return '%s(%s)' % (str(a[1]).split('::')[-1], ', '.join(_sv(x) for x in (a[3] if len(a) > 3 else ())))
        if tag == 'new':
            return 'new %s' % (a[1],)
        if tag == 'hw':
            return '%s() [hardware-derived]' % str(a[1]).split('::')[-1]
        if tag == 'out':
            return 'pointer stored by %s through argument %s' % (a[1], a[2])
        if tag == 'addr':
            return '&%s' % (a[-1],)
        if tag == 'local':
            return 'local object `%s`' % (a[-1],)
        if tag == 'temp':
            return 'a temporary object'
        if tag == 'conv' and len(a) == 3:
            return '(%s)%s' % (a[1], _sv(a[2]))
        if tag == 'widen':
            return 'loop-varying value of %s' % _sv(a[1])
        if tag == 'bool' and len(a) == 2:
            return show_bool(a[1])
        if tag == 'volatile':
            return 'volatile %s' % _sv(a[1])
        if tag in ('min', 'max') and len(a) == 3:
            return '%s(%s, %s)' % (tag, _sv(a[1]), _sv(a[2]))
        if tag in ('div', 'mod', 'and', 'or', 'xor', 'shl', 'shr') and len(a) == 3:
            sym = {'div': '/', 'mod': '%', 'and': '&', 'or': '|', 'xor': '^', 'shl': '<<', 'shr': '>>'}[tag]
            return '(%s %s %s)' % (_sv(a[1]), sym, _sv(a[2]))
        return '%s(%s)' % (tag, ', '.join(_sv(x) for x in a[1:]))
    return str(a)


def show_bool(b):
    tag = b[0]
    if tag == 'rel':
        return b[1].show()
    if tag == 'val':
        return '%s != 0' % b[1].show()
    if tag == 'const':
        return 'true' if b[1] else 'false'
    if tag == 'not':
        return '!(%s)' % show_bool(b[1])
    if tag in ('and', 'or'):
        return '(%s %s %s)' % (show_bool(b[1]), '&&' if tag == 'and' else '||', show_bool(b[2]))
    return str(b)


def _sv(x):
    if isinstance(x, Poly):
        return x.show()
    if isinstance(x, Rel):
        return x.show()
    if isinstance(x, tuple):
        return show_atom(x)
    return str(x)


def _mul(a, b):
    if a == 0 or b == 0:
        return Fraction(0)
    if a in (INF, -INF) or b in (INF, -INF):
        return INF if (a > 0) == (b > 0) else -INF
    return a * b


def _P(x):
    if isinstance(x, Poly):
        return x
    return Poly.const(x)


# ================================================================================================
class Rel:
    """canonical integer comparison  p OP 0,  OP in '>=', '==', '!='"""
    __slots__ = ('p', 'op')

    def __init__(self, p, op):
        self.p, self.op = p, op

    @staticmethod
    def make(lhs, opcode, rhs):
        """lhs OPCODE rhs over the integers, OPCODE one of < <= > >= == !="""
        lhs, rhs = _P(lhs), _P(rhs)
        if opcode == '<':
            p, op = rhs - lhs - 1, '>='
        elif opcode == '<=':
            p, op = rhs - lhs, '>='
        elif opcode == '>':
            p, op = lhs - rhs - 1, '>='
        elif opcode == '>=':
            p, op = lhs - rhs, '>='
        elif opcode in ('==', '!='):
            p, op = lhs - rhs, opcode
        else:
            raise ValueError(opcode)
        return Rel._canon(p, op)

    @staticmethod
    def _canon(p, op):
        # clear denominators
        den = 1
        for _, c in p.t:
            den = den * c.denominator // gcd(den, c.denominator)
        if den != 1:
            p = p * den
        g = 0
        for m, c in p.t:
            if m != ():
                g = gcd(g, abs(int(c)))
        if g > 1:
            k = p.const_term()
            nonconst = Poly({m: c / g for m, c in p.t if m != ()})
            if op == '>=':
                p = nonconst + Poly.const(Fraction(int(k) // g))   # g*x + k >= 0  <=>  x + floor(k/g) >= 0
            elif k % g == 0:
                p = nonconst + Poly.const(k / g)
            # equality with a constant not divisible by g is simply never true over the integers; keep as is
        if op in ('==', '!=') and p.t:
            lead = None
            for m, c in p.t:
                if m != ():
                    lead = c
                    break
            if lead is None:
                lead = p.t[0][1]
            if lead < 0:
                p = -p
        return Rel(p, op)

    def negate(self):
        if self.op == '>=':
            return Rel._canon(-self.p - 1, '>=')
        return Rel(self.p, '!=' if self.op == '==' else '==')

    def __eq__(self, o):
        return isinstance(o, Rel) and self.p == o.p and self.op == o.op

    def __hash__(self):
        return hash((self.p, self.op))

    def show(self, name=None):
        return '%s %s 0' % (self.p.show(name), self.op)

    __repr__ = show

    def decide(self, bounds):
        lo, hi = self.p.range(bounds)
        if self.op == '>=':
            if lo >= 0:
                return True
            if hi < 0:
                return False
            return None
        if self.op == '==':
            if lo == hi == 0:
                return True
            if lo > 0 or hi < 0:
                return False
            return None
        if lo == hi == 0:
            return False
        if lo > 0 or hi < 0:
            return True
        return None

    def single_atom(self):
        """(atom, a, c) if p == a*atom + c with constants a != 0, c; else None"""
        ats = self.p.atoms(deep=False)
        if len(ats) != 1:
            return None
        lin = self.p.linear_in(ats[0])
        if lin is None:
            return None
        a, rest = lin
        c = rest.as_const()
        if c is None or a == 0:
            return None
        return ats[0], a, c

    def tighten(self, bounds, want):
        """New (atom, (lo, hi)) for the edge on which this comparison evaluates to `want`, for a comparison that is
        linear in one atom; None if not representable (caller keeps the old bounds).  Empty interval: lo > hi."""
        r = self if want else self.negate()
        sa = r.single_atom()
        if sa is None:
            return None
        atom, a, c = sa
        lo, hi = bounds(atom)
        if r.op == '>=':
            # a*x + c >= 0
            if a > 0:
                lo = max(lo, _ceil(-c / a))
            else:
                hi = min(hi, _floor(c / -a))
        elif r.op == '==':
            v = -c / a
            if v.denominator != 1:
                return atom, (1, 0)
            lo, hi = max(lo, v), min(hi, v)
        else:
            v = -c / a
            if v.denominator == 1:
                if lo == v:
                    lo = v + 1
                if hi == v:
                    hi = v - 1
        return atom, (lo, hi)


def _ceil(q):
    q = Fraction(q)
    return Fraction(-((-q.numerator) // q.denominator))


def _floor(q):
    q = Fraction(q)
    return Fraction(q.numerator // q.denominator)


# ================================================================================================
#  Boolean normal form
# ================================================================================================
def nnf(b, neg=False):
    """negation normal form of ('rel',Rel)|('val',Poly)|('not',x)|('and',x,y)|('or',x,y)|('const',bool)"""
    tag = b[0]
    if tag == 'not':
        return nnf(b[1], not neg)
    if tag == 'const':
        return ('const', b[1] != neg)
    if tag == 'rel':
        return ('rel', b[1].negate() if neg else b[1])
    if tag == 'val':
        r = Rel.make(b[1], '!=', 0)
        return ('rel', r.negate() if neg else r)
    if tag in ('and', 'or'):
        t = tag
        if neg:
            t = 'or' if tag == 'and' else 'and'
        return (t, nnf(b[1], neg), nnf(b[2], neg))
    raise ValueError(b)


def bool_key(b):
    """order-insensitive key of a Boolean normal form (flattens nested and/or of the same kind)"""
    b = nnf(b)

    def rec(x):
        if x[0] in ('and', 'or'):
            parts = []
            for y in x[1:]:
                k = rec(y)
                if k[0] == x[0]:
                    parts.extend(k[1])
                else:
                    parts.append(k)
            return (x[0], frozenset(parts))
        return x
    return rec(b)


def decide_bool(b, bounds):
    """True/False/None for a Boolean normal form under atom bounds"""
    tag = b[0]
    if tag == 'const':
        return b[1]
    if tag == 'rel':
        return b[1].decide(bounds)
    if tag == 'val':
        return Rel.make(b[1], '!=', 0).decide(bounds)
    if tag == 'not':
        v = decide_bool(b[1], bounds)
        return None if v is None else (not v)
    x, y = decide_bool(b[1], bounds), decide_bool(b[2], bounds)
    if tag == 'and':
        if x is False or y is False:
            return False
        return True if (x and y) else None
    if x is True or y is True:
        return True
    return False if (x is False and y is False) else None


# ================================================================================================
#  clang AST -> normal forms
# ================================================================================================
INT_RANGES = {
    'bool': (0, 1), 'char': (-128, 127), 'signed char': (-128, 127), 'unsigned char': (0, 255),
    'short': (-2 ** 15, 2 ** 15 - 1), 'unsigned short': (0, 2 ** 16 - 1),
    'int': (-2 ** 31, 2 ** 31 - 1), 'unsigned int': (0, 2 ** 32 - 1),
    'long': (-2 ** 63, 2 ** 63 - 1), 'unsigned long': (0, 2 ** 64 - 1),
    'long long': (-2 ** 63, 2 ** 63 - 1), 'unsigned long long': (0, 2 ** 64 - 1),
}


def type_range(ct):
    """value range of a canonical integer type name (LP64), or None for anything else"""
    if not ct:
        return None
    t = ct.replace('const ', '').replace('volatile ', '').replace(' const', '').replace(' volatile', '').strip()
    return INT_RANGES.get(t)


def is_unsigned(ct):
    r = type_range(ct)
    return r is not None and r[0] == 0 and 'bool' not in ct


CMP = ('<', '<=', '>', '>=', '==', '!=')
ARITH = {'/': 'div', '%': 'mod', '&': 'and', '|': 'or', '^': 'xor', '<<': 'shl', '>>': 'shr'}


class Normalizer:
    """AST -> Poly / Boolean normal form.  Override `leaf(node)` (-> Poly or None) to give variables, members and
    calls a meaning; the default makes each distinct declaration an atom ('var', decl-id, name)."""

    def __init__(self, tu, leaf=None):
        self.tu = tu
        if leaf is not None:
            self.leaf = leaf
        self.modular = []      # (node, text): unsigned arithmetic on non-constant operands (may wrap)
        self.unknown = []      # nodes the normaliser gave an opaque atom because it has no model for them

    # -- hooks
    def leaf(self, n):
        tu = self.tu
        k = n.get('kind')
        if k == 'DeclRefExpr':
            rd = n.get('referencedDecl', {})
            return Poly.atom(('var', rd.get('id'), rd.get('name')))
        if k == 'CXXThisExpr':
            return Poly.atom(('this',))
        if k == 'MemberExpr':
            ks = tu.kids(n)
            base = self.poly(ks[0]) if ks else Poly.atom(('this',))
            b = base.as_atom()
            return Poly.atom(('field', b if b is not None else ('expr', base), n.get('name')))
        return None

    def const_of(self, n):
        cv = self.tu.sd(n).get('cv')
        if cv is None:
            return None
        try:
            return Poly.const(int(cv))
        except ValueError:
            return None

    # -- arithmetic
    def poly(self, n):
        tu = self.tu
        # strip value-preserving wrappers one level at a time so that implicit integral conversions stay visible
        while n is not None:
            k = n.get('kind')
            if k == 'ImplicitCastExpr' and n.get('castKind') == 'IntegralCast':
                ks = tu.kids(n)
                if ks:
                    c = self.const_of(n)
                    return c if c is not None else self.cast(n, self.poly(ks[0]))
            ks = tu.kids(n)
            if ks and k in ('ImplicitCastExpr', 'ParenExpr', 'ExprWithCleanups', 'MaterializeTemporaryExpr',
                            'CXXBindTemporaryExpr', 'ConstantExpr', 'FullExpr', 'SubstNonTypeTemplateParmExpr'):
                n = ks[0]
                continue
            if k == 'CXXConstructExpr' and n.get('elidable') and len(ks) == 1:
                n = ks[0]
                continue
            break
        if n is None:
            return Poly.atom(('unk', 'null'))
        k = n.get('kind')
        if k in ('IntegerLiteral', 'CharacterLiteral'):
            try:
                return Poly.const(int(n.get('value')))
            except (TypeError, ValueError):
                pass
        if k == 'CXXBoolLiteralExpr':
            return Poly.const(1 if n.get('value') else 0)
        if k in ('CXXNullPtrLiteralExpr', 'GNUNullExpr'):
            return Poly.const(0)
        if k not in ('DeclRefExpr', 'MemberExpr', 'CallExpr', 'CXXMemberCallExpr', 'CXXOperatorCallExpr'):
            c = self.const_of(n)
            if c is not None:
                return c
        if k in ('CStyleCastExpr', 'CXXStaticCastExpr', 'CXXFunctionalCastExpr', 'CXXReinterpretCastExpr',
                 'CXXConstCastExpr'):
            ks = tu.kids(n)
            return self.cast(n, self.poly(ks[-1])) if ks else Poly.atom(('unk', 'cast'))
        if k == 'UnaryOperator':
            op = n.get('opcode')
            ks = tu.kids(n)
            if op == '-':
                return self._arith(n, -self.poly(ks[0]))
            if op == '+':
                return self.poly(ks[0])
            if op == '~':
                v = self.poly(ks[0])
                c = v.as_int()
                tr = type_range(tu.sd(n).get('ct'))
                if c is not None and tr is not None:
                    # complement in the width of the (promoted) operand type: unsigned max - c, signed -c-1
                    return Poly.const(tr[1] - c if tr[0] == 0 else -c - 1)
                return Poly.atom(('not', v))
            if op == '!':
                return self.bool_value(('not', self.cond(ks[0])))
        if k == 'BinaryOperator':
            op = n.get('opcode')
            ks = tu.kids(n)
            if op in ('+', '-', '*'):
                a, b = self.poly(ks[0]), self.poly(ks[1])
                r = a + b if op == '+' else a - b if op == '-' else a * b
                return self._arith(n, r, (a, b))
            if op in ARITH:
                a, b = self.poly(ks[0]), self.poly(ks[1])
                return Poly.op(ARITH[op], a, b)
            if op in CMP or op in ('&&', '||'):
                return self.bool_value(self.cond(n))
            if op == ',':
                return self.poly(ks[1])
        lf = self.leaf(n)
        if lf is not None:
            return lf
        c = self.const_of(n)
        if c is not None:
            return c
        self.unknown.append(n)
        return Poly.atom(('unk', k, n.get('id')))

    def _arith(self, n, result, operands=()):
        ct = self.tu.sd(n).get('ct')
        if is_unsigned(ct) and not result.is_const():
            self.modular.append((n, self.tu.show(n)))
        return result

    def cast(self, n, v):
        """explicit cast: value-preserving by default; override to model narrowing"""
        return v

    def bool_value(self, b):
        """a Boolean normal form used as a scalar (0/1)"""
        b = nnf(b)
        if b[0] == 'const':
            return Poly.const(1 if b[1] else 0)
        return Poly.atom(('bool', b))

    # -- conditions
    def cond(self, n):
        tu = self.tu
        n = tu.strip(n)
        k = n.get('kind') if n else None
        if k == 'CXXBoolLiteralExpr':
            return ('const', bool(n.get('value')))
        if k == 'UnaryOperator' and n.get('opcode') == '!':
            return ('not', self.cond(tu.kids(n)[0]))
        if k == 'BinaryOperator':
            op = n.get('opcode')
            ks = tu.kids(n)
            if op in ('&&', '||'):
                return ('and' if op == '&&' else 'or', self.cond(ks[0]), self.cond(ks[1]))
            if op in CMP:
                return ('rel', Rel.make(self.poly(ks[0]), op, self.poly(ks[1])))
        if k in ('CStyleCastExpr', 'CXXStaticCastExpr', 'CXXFunctionalCastExpr') and \
                tu.sd(n).get('ct') == 'bool':
            ks = tu.kids(n)
            if ks:
                return self.cond(ks[-1])
        v = self.poly(n)
        a = v.as_atom()
        if isinstance(a, tuple) and a and a[0] == 'bool':
            return a[1]
        c = v.as_const()
        if c is not None:
            return ('const', c != 0)
        return ('val', v)


# ================================================================================================
#  canonical counted loops
# ================================================================================================
def counted_loops(tu, g, leaf=None):
    """Recognise the counted loops of CFG `g` (for / while with one induction variable).

    Returns one dict per back edge:
        header, latch, blocks   block ids (natural loop of the back edge)
        var, name               decl id / name of the induction variable (None if not recognised)
        init                    Poly: value the variable has when the loop is entered (None if not found)
        step                    Fraction: what one iteration adds to the variable (None if not recognised)
        upper                   Poly: exclusive upper bound U of the continuation test, i.e. the loop continues
                                iff  var < U  over the integers (None if the test has another shape)
        every_iteration(blk)    does block `blk` execute exactly once per iteration (dominates the latch, and
                                lies in no inner loop)?
        problems                list of reasons why the loop is not canonical (empty = canonical)
        modular                 unsigned arithmetic inside the test that may wrap (see Normalizer.modular)
    With step == 1 and init <= upper the body runs exactly  upper - init  times (a Poly).
    Leaves default to Normalizer's: locals are ('var', id, name), members ('field', ('this',), name)."""
    out = []
    dom = g.dominators()
    preds = g.preds()
    loops = []
    for latch, header in g.back_edges():
        blocks = {header, latch}
        stack = [latch]
        while stack:
            b = stack.pop()
            if b == header:
                continue
            for p in preds.get(b, ()):
                if p not in blocks:
                    blocks.add(p)
                    stack.append(p)
        loops.append((latch, header, blocks))
    for latch, header, blocks in loops:
        info = {'header': header, 'latch': latch, 'blocks': blocks, 'var': None, 'name': None, 'init': None,
                'step': None, 'upper': None, 'problems': [], 'modular': []}
        inner = set()
        for l2, h2, b2 in loops:
            if (l2, h2) != (latch, header) and b2 < blocks:
                inner |= b2

        def every_iteration(blk, latch=latch, inner=inner, blocks=blocks):
            return blk in blocks and blk not in inner and blk in dom.get(latch, ())
        info['every_iteration'] = every_iteration
        out.append(info)
        hb = g.blocks[header]
        if hb.cond is None or len(hb.succ) != 2:
            info['problems'].append('the loop header has no two-way test')
            continue
        nm = Normalizer(tu, leaf)
        b = nnf(nm.cond(tu.node(hb.cond)))
        info['modular'] = list(nm.modular)
        stay_true = hb.succ[0] in blocks
        if hb.succ[0] in blocks and hb.succ[1] in blocks:
            info['problems'].append('both outcomes of the header test stay in the loop')
            continue
        if b[0] != 'rel':
            info['problems'].append('the continuation test is not a single comparison')
            continue
        rel = b[1] if stay_true else b[1].negate()
        info['cond'] = rel
        if rel.op != '>=':
            info['problems'].append('the continuation test is an (in)equality, not an ordering')
            continue
        # modifications of locals and stores to members inside the loop
        mods = {}
        stored_fields = set()
        for bid in blocks:
            for e in g.blocks[bid].el:
                if e[0] != 'S':
                    continue
                n = tu.node(e[1])
                if n is None:
                    continue
                k = n.get('kind')
                tgt = None
                if k == 'UnaryOperator' and n.get('opcode') in ('++', '--'):
                    tgt = tu.kids(n)[0]
                elif k == 'CompoundAssignOperator' or (k == 'BinaryOperator' and n.get('opcode') == '='):
                    tgt = tu.kids(n)[0]
                if tgt is None:
                    continue
                t = tu.strip(tgt, casts=True)
                if t is not None and t.get('kind') == 'DeclRefExpr':
                    mods.setdefault(t.get('referencedDecl', {}).get('id'), []).append((bid, n))
                elif t is not None and t.get('kind') == 'MemberExpr':
                    stored_fields.add(t.get('name'))
        cands = [a for a in rel.p.atoms(deep=False) if isinstance(a, tuple) and a[0] == 'var' and a[1] in mods]
        if len(cands) != 1:
            info['problems'].append('cannot identify a single induction variable in the test')
            continue
        va = cands[0]
        info['var'], info['name'] = va[1], va[2]
        for a in rel.p.atoms(deep=True):
            if isinstance(a, tuple) and a[0] == 'field' and a[2] in stored_fields:
                info['problems'].append('the bound `%s` is written inside the loop' % a[2])
            if isinstance(a, tuple) and a[0] == 'var' and a != va and a[1] in mods:
                info['problems'].append('the bound `%s` is modified inside the loop' % a[2])
        lin = rel.p.linear_in(va)
        if lin is None or lin[0] != -1:
            info['problems'].append('the test is not of the form var < bound')
        else:
            info['upper'] = lin[1] + 1          # p = U - var - 1
        ms = mods[va[1]]
        if len(ms) != 1:
            info['problems'].append('the induction variable is modified %d times per iteration' % len(ms))
            continue
        bid, n = ms[0]
        if not every_iteration(bid):
            info['problems'].append('the induction variable is not stepped on every iteration')
        k = n.get('kind')
        if k == 'UnaryOperator':
            info['step'] = Fraction(1 if n.get('opcode') == '++' else -1)
        else:
            ks = tu.kids(n)
            nm2 = Normalizer(tu, leaf)
            rhs = nm2.poly(ks[1])
            if k == 'CompoundAssignOperator' and n.get('opcode') in ('+=', '-='):
                c = rhs.as_const()
                if c is not None:
                    info['step'] = c if n['opcode'] == '+=' else -c
            elif k == 'BinaryOperator':
                c = (rhs - Poly.atom(va)).as_const()
                if c is not None:
                    info['step'] = c
        if info['step'] is None:
            info['problems'].append('the step of the induction variable is not a constant')
        # initial value: last definition in the straight-line code before the header
        outside = [p for p in preds.get(header, ()) if p not in blocks]
        cur = outside[0] if len(outside) == 1 else None
        hops = 0
        while cur is not None and info['init'] is None and hops < 6:
            for e in reversed(g.blocks[cur].el):
                if e[0] != 'S':
                    continue
                n2 = tu.node(e[1])
                if n2 is None:
                    continue
                if n2.get('kind') == 'DeclStmt':
                    for v in tu.kids(n2):
                        if v.get('id') == va[1] and v.get('init') and tu.kids(v):
                            info['init'] = Normalizer(tu, leaf).poly(tu.kids(v)[-1])
                elif n2.get('kind') == 'BinaryOperator' and n2.get('opcode') == '=':
                    t = tu.strip(tu.kids(n2)[0], casts=True)
                    if t is not None and t.get('kind') == 'DeclRefExpr' and \
                            t.get('referencedDecl', {}).get('id') == va[1]:
                        info['init'] = Normalizer(tu, leaf).poly(tu.kids(n2)[1])
                if info['init'] is not None:
                    break
            ps = preds.get(cur, ())
            cur = ps[0] if len(ps) == 1 and info['init'] is None else None
            hops += 1
        if info['init'] is None:
            info['problems'].append('no initial value of the induction variable found before the loop')
    return out
