"""Integer-type ranges, value-preserving conversion chains, access paths and a small linear normal form over
clang AST expressions (used by rules/C01.py; nothing here executes analysed code).

* irange(ct)                     -> (lo, hi) of an LP64 integer type given by its canonical spelling
* preserved(chain, lo, hi)       -> exact set of source values v in [lo,hi] that survive the conversion chain
                                    t0 -> t1 -> ... -> tk unchanged (list of closed intervals)
* cast_chain(tu, e)              -> (leaf expression, [canonical types from the leaf up to e])
* access_path(tu, e)             -> tuple naming the object an lvalue expression designates (locals, params, fields)
* Lin / lin(tu, e, env)          -> linear normal form  sum coeff*atom + const  over opaque atoms (div, mod, mul, min,
                                    ite, cmp, access paths), so that  a+b-1, (b+a)-1, -1+a+b  coincide
"""
from fractions import Fraction

INT_BITS = {
    'bool': (False, 1), 'char': (True, 8), 'signed char': (True, 8), 'unsigned char': (False, 8),
    'short': (True, 16), 'unsigned short': (False, 16), 'int': (True, 32), 'unsigned int': (False, 32),
    'long': (True, 64), 'unsigned long': (False, 64), 'long long': (True, 64), 'unsigned long long': (False, 64),
    '__int128': (True, 128), 'unsigned __int128': (False, 128),
}


def clean_type(ct):
    if ct is None:
        return None
    t = ct.replace('const ', '').replace('volatile ', '').replace(' const', '').replace(' volatile', '').strip()
    if t.endswith('&&'):
        t = t[:-2].strip()
    if t.endswith('&'):
        t = t[:-1].strip()
    return t


def irange(ct):
    t = clean_type(ct)
    sb = INT_BITS.get(t)
    if sb is None:
        return None
    s, b = sb
    if t == 'bool':
        return (0, 1)
    if s:
        return (-(1 << (b - 1)), (1 << (b - 1)) - 1)
    return (0, (1 << b) - 1)


def is_signed(ct):
    sb = INT_BITS.get(clean_type(ct))
    return bool(sb and sb[0])


# ---------------------------------------------------------------------------------------------------------
#  conversion chains
# ---------------------------------------------------------------------------------------------------------
def _convert(pieces, rng):
    """pieces: list of (vlo, vhi, off) meaning value x = v + off for v in [vlo, vhi]; off None = not tracked.
    Converting x to a type with range rng = (lo, hi) (modular)."""
    lo, hi = rng
    m = hi - lo + 1
    out = []
    for vlo, vhi, off in pieces:
        if off is None:
            out.append((vlo, vhi, None))
            continue
        a, b = vlo + off, vhi + off
        kmin = (a - lo) // m
        kmax = (b - lo) // m
        if kmax - kmin <= 8:
            ks = list(range(kmin, kmax + 1))
        else:
            ks = sorted(k for k in {kmin, kmin + 1, -1, 0, 1, kmax - 1, kmax} if kmin <= k <= kmax)
        covered = []
        for k in ks:
            xl = max(a, lo + k * m)
            xh = min(b, hi + k * m)
            if xl > xh:
                continue
            out.append((xl - off, xh - off, off - k * m))
            covered.append((xl - off, xh - off))
        # whatever was not enumerated is kept as untracked (treated as not preserved)
        covered.sort()
        cur = vlo
        for cl, ch in covered:
            if cl > cur:
                out.append((cur, cl - 1, None))
            cur = max(cur, ch + 1)
        if cur <= vhi:
            out.append((cur, vhi, None))
    return out


def preserved(chain, lo=None, hi=None):
    """Intervals of source values in [lo,hi] (default: full range of chain[0]) that arrive unchanged at chain[-1].
    Returns (kept_intervals, lost_intervals); None if a type of the chain is not an integer type."""
    rs = [irange(t) for t in chain]
    if any(r is None for r in rs):
        return None
    slo, shi = rs[0]
    lo = slo if lo is None else max(lo, slo)
    hi = shi if hi is None else min(hi, shi)
    if lo > hi:
        return [], []
    pieces = [(lo, hi, 0)]
    for r in rs[1:]:
        pieces = _convert(pieces, r)
    kept = sorted((a, b) for a, b, off in pieces if off == 0)
    lost = sorted((a, b) for a, b, off in pieces if off != 0)
    return _merge(kept), _merge(lost)


def flow(steps, lo, hi):
    """Follow source values v in [lo,hi] through a pipeline of steps:
         ('conv', type)        modular conversion to an integer type
         ('guard', glo, ghi)   the value must lie in [glo, ghi] to go on; otherwise the pipeline stops there (value dropped)
    Returns (kept, altered, dropped): intervals of v that arrive unchanged / arrive as a different value (or could not be
    tracked) / are stopped by a guard.  None if a type is not an integer type."""
    pieces = [(lo, hi, 0)]
    dropped = []
    for st in steps:
        if st[0] == 'conv':
            r = irange(st[1])
            if r is None:
                return None
            pieces = _convert(pieces, r)
        else:
            glo, ghi = st[1], st[2]
            nxt = []
            for vlo, vhi, off in pieces:
                if off is None:
                    nxt.append((vlo, vhi, off))
                    continue
                a, b = vlo + off, vhi + off
                il, ih = max(a, glo), min(b, ghi)
                if il <= ih:
                    nxt.append((il - off, ih - off, off))
                    if a < il:
                        dropped.append((vlo, il - off - 1))
                    if ih < b:
                        dropped.append((ih - off + 1, vhi))
                else:
                    dropped.append((vlo, vhi))
            pieces = nxt
    kept = _merge(sorted((a, b) for a, b, off in pieces if off == 0))
    altered = _merge(sorted((a, b) for a, b, off in pieces if off != 0))
    return kept, altered, _merge(dropped)


def clip(iv, lo, hi):
    out = []
    for a, b in iv:
        a2, b2 = max(a, lo), min(b, hi)
        if a2 <= b2:
            out.append((a2, b2))
    return out


def _merge(iv):
    out = []
    for a, b in sorted(iv):
        if out and a <= out[-1][1] + 1:
            out[-1] = (out[-1][0], max(out[-1][1], b))
        else:
            out.append((a, b))
    return out


def fmt_int(v):
    for p in (64, 63, 32, 31, 16, 15, 8, 7):
        for d in (0, -1, 1):
            if v == (1 << p) + d and v > 1000:
                return '2^%d%s' % (p, '' if d == 0 else '%+d' % d)
            if v == -(1 << p) + d and v < -1000:
                return '-2^%d%s' % (p, '' if d == 0 else '%+d' % d)
    return str(v)


def fmt_intervals(iv):
    return ' u '.join('[%s, %s]' % (fmt_int(a), fmt_int(b)) for a, b in iv) or '{}'


# ---------------------------------------------------------------------------------------------------------
#  AST helpers
# ---------------------------------------------------------------------------------------------------------
SKIP = {'ImplicitCastExpr', 'ParenExpr', 'ExprWithCleanups', 'MaterializeTemporaryExpr', 'CXXBindTemporaryExpr',
        'ConstantExpr', 'SubstNonTypeTemplateParmExpr', 'FullExpr', 'CStyleCastExpr', 'CXXStaticCastExpr',
        'CXXFunctionalCastExpr'}


LASTKID = ('CStyleCastExpr', 'CXXStaticCastExpr', 'CXXFunctionalCastExpr', 'SubstNonTypeTemplateParmExpr')


def cast_chain(tu, e):
    """Follow value-forwarding wrappers (implicit and explicit casts, parens, temporaries) from e down to the leaf.
    Returns (leaf, types) with types = canonical types leaf..e without consecutive duplicates."""
    types = []
    n = e
    while n is not None:
        ct = clean_type(tu.sd(n).get('ct'))
        if ct:
            types.append(ct)
        k = n.get('kind')
        ks = tu.kids(n)
        if k in SKIP and ks:
            n = ks[-1] if k in LASTKID else ks[0]
            continue
        if k == 'CXXConstructExpr' and len(ks) == 1 and irange(tu.sd(n).get('ct')) is not None:
            n = ks[0]
            continue
        break
    types.reverse()
    out = []
    for t in types:
        if not out or out[-1] != t:
            out.append(t)
    return n, out


def leaf(tu, e):
    return cast_chain(tu, e)[0]


def const_value(tu, e):
    """compile-time integer value of e (through casts), or None"""
    n = e
    while n is not None:
        cv = tu.sd(n).get('cv')
        if cv is not None:
            try:
                return int(cv)
            except ValueError:
                return None
        k = n.get('kind')
        ks = tu.kids(n)
        if k in SKIP and ks:
            n = ks[-1] if k in LASTKID else ks[0]
            continue
        if k == 'IntegerLiteral':
            try:
                return int(n.get('value'))
            except (TypeError, ValueError):
                return None
        if k == 'UnaryOperator' and n.get('opcode') == '-' and ks:
            v = const_value(tu, ks[0])
            return None if v is None else -v
        return None
    return None


def access_path(tu, e):
    """('v', declid, name, field, field, ...) for locals/params/fields reached through . and ->, or
    ('this', field, ...) for members of *this; None for anything else."""
    n = leaf(tu, e)
    fields = []
    while n is not None:
        k = n.get('kind')
        if k == 'MemberExpr':
            fields.append(n.get('name'))
            ks = tu.kids(n)
            if not ks:
                return None
            n = leaf(tu, ks[0])
            continue
        if k == 'UnaryOperator' and n.get('opcode') == '*':
            n = leaf(tu, tu.kids(n)[0])
            continue
        if k == 'DeclRefExpr':
            rd = n.get('referencedDecl', {})
            return ('v', rd.get('id'), rd.get('name')) + tuple(reversed(fields))
        if k == 'CXXThisExpr':
            return ('this',) + tuple(reversed(fields))
        return None
    return None


def path_str(p):
    if p is None:
        return '?'
    if p[0] == 'v':
        return '.'.join((p[2],) + tuple(p[3:]))
    return '.'.join(p)


# ---------------------------------------------------------------------------------------------------------
#  linear normal form
# ---------------------------------------------------------------------------------------------------------
class Lin:
    """sum of coeff*atom + const; atoms are hashable tuples."""
    __slots__ = ('t', 'c')

    def __init__(self, terms=None, const=0):
        self.t = {a: Fraction(c) for a, c in (terms or {}).items() if c != 0}
        self.c = Fraction(const)

    @staticmethod
    def atom(a):
        return Lin({a: 1}, 0)

    @staticmethod
    def const(c):
        return Lin({}, c)

    def is_const(self):
        return not self.t

    def key(self):
        return (tuple(sorted(((repr(a), c) for a, c in self.t.items()))), self.c)

    def __hash__(self):
        return hash(self.key())

    def __eq__(self, o):
        return isinstance(o, Lin) and self.key() == o.key()

    def __add__(self, o):
        t = dict(self.t)
        for a, c in o.t.items():
            t[a] = t.get(a, 0) + c
        return Lin(t, self.c + o.c)

    def __neg__(self):
        return Lin({a: -c for a, c in self.t.items()}, -self.c)

    def __sub__(self, o):
        return self + (-o)

    def scale(self, k):
        return Lin({a: c * k for a, c in self.t.items()}, self.c * k)

    def single_atom(self):
        """atom if self == 1*atom, else None"""
        if self.c == 0 and len(self.t) == 1:
            (a, c), = self.t.items()
            if c == 1:
                return a
        return None

    def __repr__(self):
        parts = []
        for a, c in sorted(self.t.items(), key=lambda kv: repr(kv[0])):
            s = atom_str(a)
            if c == 1:
                parts.append('+' + s)
            elif c == -1:
                parts.append('-' + s)
            else:
                parts.append('%+d*%s' % (c, s) if c.denominator == 1 else '%+s*%s' % (c, s))
        if self.c != 0 or not parts:
            parts.append('%+d' % self.c if self.c.denominator == 1 else '%+s' % self.c)
        s = ''.join(parts)
        return s[1:] if s.startswith('+') else s


def atom_str(a):
    if not isinstance(a, tuple):
        return str(a)
    if a[0] == 'p':
        return path_str(a[1])
    if a[0] in ('div', 'mod', 'mul'):
        op = {'div': '/', 'mod': '%', 'mul': '*'}[a[0]]
        return '(%r %s %r)' % (a[1], op, a[2])
    if a[0] in ('min', 'max'):
        return '%s(%s)' % (a[0], ', '.join(sorted(repr(x) for x in a[1])))
    if a[0] == 'cmp':
        return '[%r %s 0]' % (a[2], a[1])
    if a[0] == 'ite':
        return '(%s ? %r : %r)' % (atom_str(a[1]), a[2], a[3])
    if a[0] == 'init':
        return path_str(a[1]) + "@entry"
    return repr(a)


def cmp_atom(op, l, r):
    """canonical comparison atom for  l op r : ('cmp', rel, lin) meaning lin rel 0 with rel in <,<=,==,!="""
    if op in ('>', '>='):
        l, r = r, l
        op = '<' if op == '>' else '<='
    d = l - r
    if op in ('==', '!='):
        # sign-normalise
        k = d.key()
        k2 = (-d).key()
        if k2 < k:
            d = -d
    return ('cmp', op, d)


def negate_cmp(a):
    """logical negation of a cmp atom (a conjunction has no negation in this vocabulary: returned as ('not', a))"""
    if a[0] != 'cmp':
        return a[1] if a[0] == 'not' else ('not', a)
    _, op, d = a
    if op == '<':      # d < 0  ->  d >= 0  ->  -d <= 0
        return ('cmp', '<=', -d)
    if op == '<=':
        return ('cmp', '<', -d)
    if op == '==':
        return ('cmp', '!=', d)
    return ('cmp', '==', d)


class LinEnv:
    """Controls how leaves are read: `subst` maps an access path to a Lin (forward substitution of single-assignment
    locals / symbolic stores); unknown calls become opaque atoms."""

    def __init__(self, tu, subst=None, on_read=None, on_call=None):
        self.tu = tu
        self.subst = subst if subst is not None else {}
        self.on_read = on_read
        self.on_call = on_call      # on_call(call node, env) -> Lin | None : value of a call (inlined helper), if known


def lin(tu, e, env=None):
    """Linear normal form of integer expression e (casts ignored: wrap-around is checked separately). Never fails:
    anything unknown becomes an opaque atom keyed by a structural rendering."""
    env = env or LinEnv(tu)
    n = e
    # strip value-forwarding wrappers
    while n is not None and n.get('kind') in SKIP and tu.kids(n):
        k = n.get('kind')
        ks = tu.kids(n)
        n = ks[-1] if k in LASTKID else ks[0]
    if n is None:
        return Lin.atom(('opaque', None))
    k = n.get('kind')
    ks = tu.kids(n)
    if k == 'CXXConstructExpr' and len(ks) == 1:
        return lin(tu, ks[0], env)
    cv = tu.sd(n).get('cv')
    if cv is not None and k not in ('DeclRefExpr', 'MemberExpr'):
        try:
            return Lin.const(int(cv))
        except ValueError:
            pass
    if k == 'IntegerLiteral':
        return Lin.const(int(n.get('value')))
    if k == 'CXXBoolLiteralExpr':
        return Lin.const(1 if n.get('value') else 0)
    if k in ('DeclRefExpr', 'MemberExpr'):
        p = access_path(tu, n)
        if p is not None:
            if env.on_read:
                r = env.on_read(p, n)
                if r is not None:
                    return r
            if p in env.subst:
                return env.subst[p]
            if cv is not None:
                try:
                    return Lin.const(int(cv))
                except ValueError:
                    pass
            return Lin.atom(('p', p))
        return Lin.atom(('opaque', tu.show(n)))
    if k == 'UnaryOperator':
        op = n.get('opcode')
        if op == '-':
            return -lin(tu, ks[0], env)
        if op == '+':
            return lin(tu, ks[0], env)
        if op == '!':
            a = bool_atom(tu, ks[0], env)
            if a is not None:
                return Lin.atom(negate_cmp(a))
        return Lin.atom(('opaque', tu.show(n)))
    if k == 'BinaryOperator':
        op = n.get('opcode')
        if op in ('+', '-'):
            a, b = lin(tu, ks[0], env), lin(tu, ks[1], env)
            return a + b if op == '+' else a - b
        if op == '*':
            a, b = lin(tu, ks[0], env), lin(tu, ks[1], env)
            if a.is_const():
                return b.scale(a.c)
            if b.is_const():
                return a.scale(b.c)
            x, y = sorted((a, b), key=lambda z: z.key())
            return Lin.atom(('mul', x, y))
        if op in ('/', '%'):
            a, b = lin(tu, ks[0], env), lin(tu, ks[1], env)
            return Lin.atom(('div' if op == '/' else 'mod', a, b))
        if op in ('<', '<=', '>', '>=', '==', '!='):
            return Lin.atom(cmp_atom(op, lin(tu, ks[0], env), lin(tu, ks[1], env)))
        if op == ',':
            return lin(tu, ks[1], env)
        if op == '&&':
            a, b = bool_atom(tu, ks[0], env), bool_atom(tu, ks[1], env)
            if a is not None and b is not None:
                parts = set()
                for x in (a, b):
                    parts |= set(x[1]) if x[0] == 'and' else {x}
                return Lin.atom(('and', frozenset(parts)))
        return Lin.atom(('opaque', tu.show(n)))
    if k == 'ConditionalOperator':
        c = bool_atom(tu, ks[0], env)
        a, b = lin(tu, ks[1], env), lin(tu, ks[2], env)
        if a == b:
            return a
        if c is None:
            return Lin.atom(('opaque', tu.show(n)))
        return Lin.atom(ite_atom(c, a, b))
    if k == 'CallExpr':
        q = tu.sd(n).get('q', '')
        args = ks[1:]
        if env.on_call is not None:
            r = env.on_call(n, env)
            if r is not None:
                return r
        if q in ('std::min', 'std::max') and len(args) == 2:
            return Lin.atom((q[5:], frozenset((lin(tu, args[0], env), lin(tu, args[1], env)))))
        if q in ('std::move', 'std::forward') and len(args) == 1:
            return lin(tu, args[0], env)
        return Lin.atom(('call', q, tuple(lin(tu, a, env) for a in args)))
    return Lin.atom(('opaque', tu.show(n)))


def ite_atom(c, a, b):
    """canonical if-then-else: min/max are recognised, the condition is kept un-negated in one orientation"""
    if c[0] != 'cmp':
        return ('ite', c, a, b)
    _, op, d = c
    # (x < y ? x : y) == min(x,y);  c is d rel 0 with d = x - y
    if op in ('<', '<='):
        if d == a - b:
            return ('min', frozenset((a, b)))
        if d == b - a:
            return ('max', frozenset((a, b)))
    return ('ite', c, a, b)


def bool_atom(tu, e, env=None):
    """cmp atom for a Boolean expression (comparison, !comparison, integer in Boolean context), else None"""
    env = env or LinEnv(tu)
    n = e
    while n is not None and n.get('kind') in SKIP and tu.kids(n):
        k = n.get('kind')
        ks = tu.kids(n)
        n = ks[-1] if k in LASTKID else ks[0]
    if n is None:
        return None
    k = n.get('kind')
    ks = tu.kids(n)
    if k == 'BinaryOperator' and n.get('opcode') in ('<', '<=', '>', '>=', '==', '!='):
        return cmp_atom(n['opcode'], lin(tu, ks[0], env), lin(tu, ks[1], env))
    if k == 'UnaryOperator' and n.get('opcode') == '!':
        a = bool_atom(tu, ks[0], env)
        return None if a is None else negate_cmp(a)
    if k == 'BinaryOperator' and n.get('opcode') == '&&':
        v = lin(tu, n, env)
        a = v.single_atom()
        return a if a is not None and a[0] == 'and' else None
    if k in ('DeclRefExpr', 'MemberExpr') and clean_type(tu.sd(n).get('ct')) == 'bool':
        # a Boolean variable whose value is known as a comparison (or a conjunction of comparisons)
        v = lin(tu, n, env)
        a = v.single_atom()
        if a is not None and a[0] in ('cmp', 'and'):
            return a
        return None
    if k in ('DeclRefExpr', 'MemberExpr', 'BinaryOperator', 'CallExpr', 'CXXMemberCallExpr'):
        if irange(tu.sd(n).get('ct')) is not None and clean_type(tu.sd(n).get('ct')) != 'bool':
            return cmp_atom('!=', lin(tu, n, env), Lin.const(0))
    return None
