"""Integer polynomial normal forms of C++ expressions (shared helper, used by rules/C15.py and rules/C20.py).

A `Poly` is a canonical sum of integer-coefficient monomials over opaque, hashable *atoms* (an entry value of
a member, a parameter, `buffer->size()`, ...).  Two expressions with the same value for all values of the
atoms -- under the usual no-wrap reading of size arithmetic -- have equal Polys (`a+b`, `b+a`, `(a)+b`,
`a-(-b)`; `n*4*x`, `x*n*4`).  Relations are normalised to `P <= 0`, `P == 0`, `P != 0` over the integers
(`a > b` becomes `b - a + 1 <= 0`), so `a+b >= c`, `!(a+b < c)` and `c <= b+a` coincide and an off-by-one
shows up as a constant difference.  Nothing is executed and no solver is involved: this is plain term
rewriting (what a compiler's value numbering does).
"""


class Poly:
    __slots__ = ('t',)

    def __init__(self, terms=None):
        self.t = {k: v for k, v in (terms or {}).items() if v != 0}

    # ---- construction
    @staticmethod
    def const(c):
        return Poly({(): int(c)})

    @staticmethod
    def atom(a):
        return Poly({(a,): 1})

    # ---- algebra
    def __add__(self, o):
        o = _p(o)
        d = dict(self.t)
        for k, v in o.t.items():
            d[k] = d.get(k, 0) + v
        return Poly(d)

    __radd__ = __add__

    def __neg__(self):
        return Poly({k: -v for k, v in self.t.items()})

    def __sub__(self, o):
        return self + (-_p(o))

    def __rsub__(self, o):
        return _p(o) - self

    def __mul__(self, o):
        o = _p(o)
        d = {}
        for k1, v1 in self.t.items():
            for k2, v2 in o.t.items():
                k = tuple(sorted(k1 + k2, key=repr))
                d[k] = d.get(k, 0) + v1 * v2
        return Poly(d)

    __rmul__ = __mul__

    # ---- queries
    def is_const(self):
        return all(k == () for k in self.t)

    def const_value(self):
        """integer value if constant, else None"""
        if self.is_const():
            return self.t.get((), 0)
        return None

    def atoms(self):
        s = set()
        for k in self.t:
            s.update(k)
        return s

    def coeff(self, atom):
        """(a, rest) with self == a*atom + rest, a and rest free of atom; None if not linear in atom"""
        a = {}
        rest = {}
        for k, v in self.t.items():
            n = k.count(atom)
            if n == 0:
                rest[k] = v
            elif n == 1:
                kk = list(k)
                kk.remove(atom)
                a[tuple(kk)] = v
            else:
                return None
        return Poly(a), Poly(rest)

    def subst(self, atom, value):
        """replace atom by a Poly / int"""
        value = _p(value)
        out = Poly()
        for k, v in self.t.items():
            term = Poly.const(v)
            for x in k:
                term = term * (value if x == atom else Poly.atom(x))
            out = out + term
        return out

    def key(self):
        return tuple(sorted(((k, v) for k, v in self.t.items()), key=repr))

    def __eq__(self, o):
        if isinstance(o, int):
            o = Poly.const(o)
        return isinstance(o, Poly) and self.t == o.t

    def __ne__(self, o):
        return not self.__eq__(o)

    def __hash__(self):
        return hash(self.key())

    def __repr__(self):
        return show(self)


def _p(x):
    return x if isinstance(x, Poly) else Poly.const(x)


def _path_name(p):
    if isinstance(p, tuple) and p:
        if p[0] == 'rh':
            return 'value'
        if p[0] == 'elem':
            return _path_name(p[1]) + '[i]'
        if p[0] == 'cstr':
            return _path_name(p[1]) + '.c_str()'
        if p[0] in ('local', 'rvar') and len(p) >= 3:
            return str(p[2])
        if p[0] == 'lit':
            return str(p[1])
    return str(p)


def atom_name(a):
    if isinstance(a, tuple) and a:
        if a[0] in ('param', 'local', 'field', 'sym') and len(a) == 2:
            return str(a[1])
        if a[0] == 'rvar' and len(a) == 3:
            return str(a[2])
        if a[0] == 'size' and len(a) == 2:
            return 'size(%s)' % _path_name(a[1])
        return '%s(%s)' % (a[0], ','.join(atom_name(x) if isinstance(x, tuple) else str(x) for x in a[1:]))
    return str(a)


def show(p):
    if not isinstance(p, Poly):
        return str(p)
    if not p.t:
        return '0'
    parts = []
    for k, v in sorted(p.t.items(), key=lambda kv: (len(kv[0]), repr(kv[0]))):
        mon = '*'.join(atom_name(a) for a in k)
        if not mon:
            s = str(abs(v))
        elif abs(v) == 1:
            s = mon
        else:
            s = '%d*%s' % (abs(v), mon)
        parts.append(('-' if v < 0 else '+', s))
    out = ''
    for i, (sg, s) in enumerate(parts):
        if i == 0:
            out = ('-' if sg == '-' else '') + s
        else:
            out += ' %s %s' % (sg, s)
    return out


# =====================================================================================================
#  expression -> Poly
# =====================================================================================================
ARITH = {'+', '-', '*'}
RELOPS = {'<', '>', '<=', '>=', '==', '!='}


class Evaluator:
    """Maps clang expression nodes to Polys.  Subclass / pass callbacks for names and calls.

    var(node, declid)  -> Poly | None   value of a DeclRefExpr (parameter, local)
    member(node)       -> Poly | None   value of a MemberExpr
    call(node)         -> Poly | None   value of a call-like node
    Anything else becomes None (= not representable; the caller reports *undecided*).
    """

    def __init__(self, tu, var=None, member=None, call=None, use_cv=True, on_sub=None, divmod=None):
        self.tu = tu
        self.divmod = divmod      # divmod(node, a, b, '/' | '%') -> Poly | None: value of an integer quotient / remainder
        self.on_sub = on_sub      # on_sub(node, a, b): told about every subtraction `a - b` that is evaluated
        self.var = var or (lambda n, d: None)
        self.member = member or (lambda n: None)
        self.call = call or (lambda n: None)
        self.use_cv = use_cv

    def ev(self, n, depth=0):
        tu = self.tu
        if n is None or depth > 60:
            return None
        # walk through value-preserving wrappers by hand: a constant recorded on a wrapper is taken as is, and the
        # replacement of a substituted template parameter is its *last* child
        while n is not None and n.get('kind') in ('ImplicitCastExpr', 'ParenExpr', 'ExprWithCleanups', 'ConstantExpr',
                                                  'MaterializeTemporaryExpr', 'SubstNonTypeTemplateParmExpr', 'FullExpr'):
            if self.use_cv:
                cv = tu.sd(n).get('cv')
                if cv is not None:
                    try:
                        return Poly.const(int(cv))
                    except (TypeError, ValueError):
                        pass
            ks = tu.kids(n)
            if not ks:
                return None
            n = ks[-1] if n['kind'] == 'SubstNonTypeTemplateParmExpr' else ks[0]
        if n is None:
            return None
        n = tu.strip(n)
        k = n.get('kind')
        if k in ('IntegerLiteral',):
            try:
                return Poly.const(int(n.get('value')))
            except (TypeError, ValueError):
                return None
        if k == 'CXXBoolLiteralExpr':
            return Poly.const(1 if n.get('value') else 0)
        if k in ('CXXNullPtrLiteralExpr', 'GNUNullExpr'):
            return Poly.const(0)
        if k in ('CStyleCastExpr', 'CXXStaticCastExpr', 'CXXFunctionalCastExpr', 'CXXConstCastExpr'):
            ks = tu.kids(n)
            ct = tu.sd(n).get('ct', '') or n.get('type', {}).get('qualType', '')
            if ks and _is_integral(ct):
                return self.ev(ks[-1], depth + 1)
            return None
        if self.use_cv and k not in ('CallExpr', 'CXXMemberCallExpr', 'CXXOperatorCallExpr'):
            cv = tu.sd(n).get('cv')
            if cv is not None:
                try:
                    return Poly.const(int(cv))
                except (TypeError, ValueError):
                    pass
        if k == 'UnaryExprOrTypeTraitExpr':
            cv = tu.sd(n).get('cv')
            if cv is not None:
                return Poly.const(int(cv))
            return None
        if k == 'DeclRefExpr':
            return self.var(n, n.get('referencedDecl', {}).get('id'))
        if k == 'MemberExpr':
            return self.member(n)
        if k == 'UnaryOperator':
            op = n.get('opcode')
            a = self.ev(tu.kids(n)[0], depth + 1)
            if a is None:
                return None
            if op == '-':
                return -a
            if op == '+':
                return a
            return None
        if k == 'BinaryOperator' and n.get('opcode') in ARITH:
            ks = tu.kids(n)
            a = self.ev(ks[0], depth + 1)
            b = self.ev(ks[1], depth + 1)
            if a is None or b is None:
                return None
            op = n['opcode']
            if op == '-' and self.on_sub is not None:
                self.on_sub(n, a, b)
            return a + b if op == '+' else a - b if op == '-' else a * b
        if k == 'BinaryOperator' and n.get('opcode') in ('/', '%') and self.divmod is not None:
            ks = tu.kids(n)
            a = self.ev(ks[0], depth + 1)
            b = self.ev(ks[1], depth + 1)
            if a is None or b is None:
                return None
            return self.divmod(n, a, b, n['opcode'])
        if k == 'ConditionalOperator':
            ks = tu.kids(n)
            c = self.truth(ks[0], depth + 1)
            if c is True:
                return self.ev(ks[1], depth + 1)
            if c is False:
                return self.ev(ks[2], depth + 1)
            a = self.ev(ks[1], depth + 1)
            b = self.ev(ks[2], depth + 1)
            if a is not None and a == b:
                return a
            return None
        if k in ('CallExpr', 'CXXMemberCallExpr', 'CXXOperatorCallExpr'):
            return self.call(n)
        return None

    def truth(self, n, depth=0):
        """True / False if the condition is decided by constants, else None"""
        rs = self.rel(n, depth)
        if rs is None:
            return None
        vals = []
        for p, op in rs:
            c = p.const_value()
            if c is None:
                return None
            vals.append(c <= 0 if op == '<=' else c == 0 if op == '==' else c != 0)
        return all(vals)

    def rel(self, n, depth=0, neg=False):
        """Conjunction [(Poly, '<=' | '==' | '!=')] meaning `Poly op 0`, or None if not a recognised
        relation (a disjunction is not representable and yields None)."""
        tu = self.tu
        if n is None or depth > 60:
            return None
        while n is not None and n.get('kind') in ('ImplicitCastExpr', 'ParenExpr', 'ExprWithCleanups', 'ConstantExpr',
                                                  'MaterializeTemporaryExpr', 'FullExpr'):
            ks = tu.kids(n)
            if not ks:
                return None
            n = ks[0]
        if n is None:
            return None
        k = n.get('kind')
        if k == 'SubstNonTypeTemplateParmExpr':
            v = self.ev(n, depth + 1)
            return None if v is None else [(v, '==' if neg else '!=')]
        if k == 'UnaryOperator' and n.get('opcode') == '!':
            return self.rel(tu.kids(n)[0], depth + 1, not neg)
        if k == 'BinaryOperator' and n.get('opcode') in ('&&', '||'):
            ks = tu.kids(n)
            conj = (n['opcode'] == '&&') != neg      # De Morgan
            a = self.rel(ks[0], depth + 1, neg)
            b = self.rel(ks[1], depth + 1, neg)
            if not conj or a is None or b is None:
                return None
            return a + b
        if k == 'BinaryOperator' and n.get('opcode') in RELOPS:
            ks = tu.kids(n)
            a = self.ev(ks[0], depth + 1)
            b = self.ev(ks[1], depth + 1)
            if a is None or b is None:
                return None
            return [relation(a, n['opcode'], b, neg)]
        v = self.ev(n, depth + 1)
        if v is None:
            return None
        return [(v, '==' if neg else '!=')]


def relation(a, op, b, neg=False):
    """normalised (Poly, op) for `a op b` (negated if neg) over the integers"""
    if neg:
        op = {'<': '>=', '>': '<=', '<=': '>', '>=': '<', '==': '!=', '!=': '=='}[op]
    if op == '<':
        return (a - b + 1, '<=')
    if op == '<=':
        return (a - b, '<=')
    if op == '>':
        return (b - a + 1, '<=')
    if op == '>=':
        return (b - a, '<=')
    if op == '==':
        p = a - b
        return (_canon_sign(p), '==')
    p = a - b
    return (_canon_sign(p), '!=')


def _canon_sign(p):
    """P == 0 and -P == 0 are the same relation: make the first coefficient positive"""
    if not p.t:
        return p
    k = sorted(p.t, key=lambda kk: (len(kk), repr(kk)))[-1]
    return p if p.t[k] > 0 else -p


def negate(rel):
    p, op = rel
    if op == '<=':
        return (-p + 1, '<=')
    return (p, '!=' if op == '==' else '==')


def show_rel(rel):
    p, op = rel
    return '%s %s 0' % (show(p), op)


def _is_integral(ct):
    ct = ct.replace('const ', '').strip()
    return ct in ('int', 'unsigned int', 'long', 'unsigned long', 'long long', 'unsigned long long', 'short',
                  'unsigned short', 'char', 'unsigned char', 'signed char', 'size_t', 'std::size_t', 'bool',
                  'uint64_t', 'int64_t', 'uint32_t', 'int32_t', 'ssize_t', 'ptrdiff_t', 'std::ptrdiff_t')


def implies_le(constraints, need):
    """Does some constraint `P <= 0` in the list entail `need <= 0` because it differs from it by a constant
    only?  Returns (verdict, slack, constraint):
       verdict 'exact'   : the same relation is present
               'stronger': present with `need + d <= 0`, d > 0 (entails need, but also rejects d values that fit)
               'weaker'  : present with `need - d <= 0`, d > 0 (does not entail need: off by d)
               None      : no constraint over the same non-constant part"""
    best = None
    for c in constraints:
        p, op = c
        if op != '<=':
            continue
        d = (p - need).const_value()
        if d is None:
            continue
        v = 'exact' if d == 0 else 'stronger' if d > 0 else 'weaker'
        if best is None or v == 'exact' or (v == 'stronger' and best[0] == 'weaker'):
            best = (v, d, c)
            if v == 'exact':
                break
    return best if best else (None, None, None)


# =====================================================================================================
#  bounds of a polynomial over unsigned atoms (interval reasoning, no solver)
# =====================================================================================================
def upper_bound(poly, facts, hi, max_facts=2):
    """An integer B with poly <= B for all values of the atoms in [0, hi] that satisfy the facts (each fact is a
    Poly F meaning F <= 0), or None.  Method: poly = (poly - sum S) + sum S <= poly - sum S for any subset S of the
    facts; every candidate is bounded term-wise (positive coefficients at hi, negative at 0); linear terms only."""
    from itertools import combinations
    best = None
    cands = [Poly()]
    for r in range(1, max_facts + 1):
        for combo in combinations(facts, r):
            acc = Poly()
            for f in combo:
                acc = acc + f
            cands.append(acc)
    # a positive multiple of a single fact that cancels one of the positive terms of poly
    for f in facts:
        for mon, c in poly.t.items():
            fc = f.t.get(mon, 0)
            if mon and c > 0 and fc > 0 and c % fc == 0 and c // fc > 1:
                cands.append(f * (c // fc))
    for acc in cands:
        q = poly - acc
        b = 0
        ok = True
        for mon, c in q.t.items():
            if len(mon) == 0:
                b += c
            elif len(mon) == 1:
                if c > 0:
                    b += c * hi
            else:
                ok = False
                break
        if ok and (best is None or b < best):
            best = b
    return best


def lower_bound(poly, facts, hi, max_facts=2):
    u = upper_bound(-poly, facts, hi, max_facts)
    return None if u is None else -u


def poly_value(poly, env):
    """integer value of a Poly under an assignment atom -> int (None if an atom is missing)"""
    tot = 0
    for mon, c in poly.t.items():
        v = c
        for a in mon:
            if a not in env:
                return None
            v *= env[a]
        tot += v
    return tot


def small_model(cons, extra_values=(), limit=200000, derived=None):
    """An assignment of small non-negative integers to the atoms that satisfies every (Poly, op) in cons, or None.
    Candidates per atom: 0..3 and the constants that occur in the constraints (and their neighbours).  This only
    exhibits a witness for a path condition that was already derived; finding none proves nothing."""
    from itertools import product
    derived = derived or {}       # atom -> function(env) giving its value from the other atoms (e.g. align-up)
    atoms = {a for p, op in cons for a in p.atoms() if a not in derived}
    for a, fn in derived.items():
        atoms |= set(getattr(fn, 'needs', ()))
    atoms = sorted(atoms, key=repr)
    vals = {0, 1, 2, 3}
    for p, op in cons:
        c = abs(p.t.get((), 0))
        vals.update(v for v in (c - 1, c, c + 1) if v >= 0)
        for mon, k in p.t.items():
            if mon and abs(k) > 3:
                vals.update(v for v in (abs(k) - 1, abs(k)) if v >= 0)
    vals.update(extra_values)
    vals = sorted(vals)
    if len(vals) ** max(1, len(atoms)) > limit:
        vals = vals[:6]
    for combo in product(vals, repeat=len(atoms)):
        env = dict(zip(atoms, combo))
        for a, fn in derived.items():
            env[a] = fn(env)
        if any(v is None for v in env.values()):
            continue
        ok = True
        for p, op in cons:
            v = poly_value(p, env)
            if v is None or not (v <= 0 if op == '<=' else v == 0 if op == '==' else v != 0):
                ok = False
                break
        if ok:
            return env
    return None
