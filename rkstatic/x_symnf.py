"""Symbolic normal forms of expressions and path summaries of small functions (shared by rules C10 / C11).

Nothing is executed: `SymExec.paths(fn)` enumerates the paths of clang's CFG of a function (each loop body
at most once) and, along every path, evaluates every expression to a *normal form* - a nested tuple over
parameters, `this`, fields, constants and resolved callee names - in which
    * implicit casts, parentheses, temporaries, copy/move constructions of the same type and
      std::move / std::forward are transparent,
    * `a > b`, `b < a`, `!(a <= b)` coincide; `a != b` is `not eq`; `p`, `p != nullptr`, `!!p` coincide;
      `n > 0`, `n != 0`, `n` coincide for unsigned n,
    * `+` and `*` are flattened and sorted; `p[i]` is `*(p + i)`; `&*p` is `p`,
    * locals are replaced by their initialisers (so introducing / removing a temporary changes nothing),
    * calls to single-path side-effect-free functions of the analysed classes are replaced by the value
      they return (accessors such as begin()/size()/lookup()),
    * `cbegin/cend` are `begin/end`,
    * every read of a *place* (field chain rooted at this / a parameter / a local) carries the version of
      that place, bumped at each mutation, so that a value read before a mutation differs from one read after.

A path yields: the branch conditions with polarity, the ordered events (calls, stores, mutations,
member initialisers) and how it ends (return value / thrown type / fall off the end).
"""
import re

TRANSP = {'ImplicitCastExpr', 'ParenExpr', 'ExprWithCleanups', 'MaterializeTemporaryExpr', 'CXXBindTemporaryExpr',
          'ConstantExpr', 'SubstNonTypeTemplateParmExpr', 'FullExpr'}
EXPL_CASTS = {'CStyleCastExpr', 'CXXStaticCastExpr', 'CXXReinterpretCastExpr', 'CXXConstCastExpr',
              'CXXFunctionalCastExpr'}
# non-const members of std containers / smart pointers that give access to elements but leave the
# container itself (its allocation, its size, the order of its elements) alone
ACCESS_ONLY = {'begin', 'end', 'rbegin', 'rend', 'cbegin', 'cend', 'crbegin', 'crend', 'data', 'operator[]', 'at',
               'front', 'back', 'get', 'operator*', 'operator->', 'size', 'empty', 'capacity', 'operator bool'}
CANON_NAME = {'cbegin': 'begin', 'cend': 'end', 'crbegin': 'rbegin', 'crend': 'rend'}

_targs = re.compile(r'<[^<>]*>')


def strip_targs(q):
    """std::vector<int>::size -> std::vector::size (template arguments removed at every level)"""
    j = q.rfind('::operator')
    if j >= 0 and '::' not in q[j + 2:] and ('<' in q[j:] or '>' in q[j:]):
        return strip_targs(q[:j]) + q[j:]
    prev = None
    while prev != q:
        prev = q
        q = _targs.sub('', q)
    return q


def base_name(how):
    """callee name without the `{template arguments}` suffix added by SymExec.call_name"""
    return how.split('{', 1)[0] if how else how


def last(q):
    """last component of a qualified name (template arguments may contain '::')"""
    q = base_name(q)
    j = q.rfind('::operator')
    if j >= 0 and '::' not in q[j + 2:]:
        return q[j + 2:]
    depth = 0
    i = len(q) - 1
    while i > 0:
        c = q[i]
        if c == '>':
            depth += 1
        elif c == '<':
            depth -= 1
        elif c == ':' and q[i - 1] == ':' and depth == 0:
            return q[i + 1:]
        i -= 1
    return q


def is_const_method(sd):
    return bool(re.search(r'\)\s*const\b', sd.get('fty', '')))


def unver(nf):
    """drop the versions carried by place reads"""
    if isinstance(nf, tuple):
        if nf and nf[0] == 'field' and len(nf) == 4:
            return ('field', unver(nf[1]), nf[2])
        if nf and nf[0] == 'var' and len(nf) == 3:
            return ('var', nf[1])
        return tuple(unver(x) for x in nf)
    return nf


def versions_in(nf, out=None):
    """{unversioned place: set of versions} for every versioned place read inside nf"""
    if out is None:
        out = {}
    if isinstance(nf, tuple):
        if nf and nf[0] == 'field' and len(nf) == 4:
            out.setdefault(unver(nf), set()).add(nf[3])
            versions_in(nf[1], out)
        else:
            for x in nf:
                versions_in(x, out)
    return out


def contains(nf, sub):
    if nf == sub:
        return True
    if isinstance(nf, tuple):
        return any(contains(x, sub) for x in nf)
    return False


def find_all(nf, pred, out=None):
    if out is None:
        out = []
    if isinstance(nf, tuple):
        if pred(nf):
            out.append(nf)
        for x in nf:
            find_all(x, pred, out)
    return out


def show(nf):
    """compact rendering of a normal form for diagnostics"""
    nf = unver(nf)
    if not isinstance(nf, tuple) or not nf:
        return str(nf)
    h = nf[0]
    if h == 'param':
        return nf[2] if len(nf) > 2 and nf[2] else 'arg%d' % nf[1]
    if h == 'lparam':
        return 'elem' if nf[1] == 0 else 'elem%d' % nf[1]
    if h == 'this':
        return '*this'
    if h == 'field':
        b = show(nf[1])
        return nf[2] if b == '*this' else '%s.%s' % (b, nf[2])
    if h == 'const':
        return str(nf[1])
    if h == 'null':
        return 'nullptr'
    if h == 'var':
        return 'local'
    if h == 'call':
        nm = last(nf[1])
        if nf[2] is not None:
            return '%s.%s(%s)' % (show(nf[2]), nm, ', '.join(show(a) for a in nf[3:]))
        return '%s(%s)' % (nm, ', '.join(show(a) for a in nf[3:]))
    if h in ('add', 'mul'):
        return '(' + (' + ' if h == 'add' else ' * ').join(show(a) for a in nf[1:]) + ')'
    if h == 'sub':
        return '(%s - %s)' % (show(nf[1]), show(nf[2]))
    if h == 'lt':
        return '(%s < %s)' % (show(nf[1]), show(nf[2]))
    if h == 'eq':
        return '(%s == %s)' % (show(nf[1]), show(nf[2]))
    if h == 'not':
        return '!%s' % show(nf[1])
    if h == 'deref':
        return '*%s' % show(nf[1])
    if h == 'addr':
        return '&%s' % show(nf[1])
    if h == 'cast':
        return '(%s)%s' % (nf[1], show(nf[2]))
    if h == 'sizeof':
        return 'sizeof(%s)' % nf[1]
    if h == 'construct':
        return '%s(%s)' % (last(strip_targs(nf[1])), ', '.join(show(a) for a in nf[2:]))
    if h == 'new':
        return 'new %s[%s]' % (nf[1], show(nf[2]) if nf[2] is not None else '')
    if h == 'pred':
        return '[%s]' % show(nf[1])
    if h == 'cond':
        return '(%s ? %s : %s)' % (show(nf[1]), show(nf[2]), show(nf[3]))
    return '%s(%s)' % (h, ', '.join(show(a) for a in nf[1:]))


def mk_not(x):
    if isinstance(x, tuple) and x and x[0] == 'not':
        return x[1]
    if x == ('const', 0):
        return ('const', 1)
    if x == ('const', 1):
        return ('const', 0)
    return ('not', x)


def mk_eq(a, b):
    if a == b:
        return ('const', 1)
    x, y = sorted((a, b), key=repr)
    return ('eq', x, y)


def mk_comm(op, items):
    flat = []
    for i in items:
        if isinstance(i, tuple) and i and i[0] == op:
            flat.extend(i[1:])
        else:
            flat.append(i)
    if op == 'add':
        k = sum(i[1] for i in flat if isinstance(i, tuple) and len(i) == 2 and i[0] == 'const' and isinstance(i[1], int))
        flat = [i for i in flat if not (isinstance(i, tuple) and len(i) == 2 and i[0] == 'const' and isinstance(i[1], int))]
        if k != 0:
            flat.append(('const', k))
        flat = flat or [('const', 0)]
    if op == 'mul':
        flat = [i for i in flat if i != ('const', 1)] or [('const', 1)]
    if len(flat) == 1:
        return flat[0]
    return (op,) + tuple(sorted(flat, key=repr))


def mk_deref(p):
    if isinstance(p, tuple) and p and p[0] == 'addr':
        return p[1]
    return ('deref', p)


def mk_addr(x):
    if isinstance(x, tuple) and x and x[0] == 'deref':
        return x[1]
    return ('addr', x)


def truth(x):
    """normal form of `x` used as a condition"""
    return x


class Unsupported(Exception):
    pass


class PathResult:
    __slots__ = ('conds', 'events', 'term', 'ver', 'env', 'blocks')

    def __init__(self, conds, events, term, ver, env, blocks):
        self.conds = conds      # [(nf, polarity, cond node id)]
        self.events = events    # [Event]
        self.term = term        # ('return', nf|None, node) | ('throw', type, node) | ('end',)
        self.ver = ver
        self.env = env
        self.blocks = blocks

    def cond_of(self, nf):
        """polarity with which the (unversioned) condition nf was decided on this path, or None"""
        for c, pol, _ in self.conds:
            if unver(c) == nf:
                return pol
        return None


class Event:
    """kind: 'call' (any call / construct; nf = its value), 'store' (place, value), 'mutate' (place, how),
    'init' (field name, value, written), 'baseinit' (callee side entry, args)"""
    __slots__ = ('kind', 'node', 'nf', 'place', 'how', 'value', 'conds_n', 'extra', 'ver')

    def __init__(self, kind, node, nf=None, place=None, how=None, value=None, conds_n=0, extra=None):
        self.kind = kind
        self.node = node
        self.nf = nf
        self.place = place
        self.how = how
        self.value = value
        self.conds_n = conds_n   # number of branch conditions decided before this event
        self.extra = extra
        self.ver = None          # versions of all places just before the event

    def __repr__(self):
        return 'Event(%s, %s, place=%s, how=%s)' % (self.kind, show(self.nf) if self.nf else None,
                                                     show(self.place) if self.place else None, self.how)


class _State:
    def __init__(self, env, this):
        self.env = env
        self.this = this
        self.ver = {}
        self.known = {}
        self.conds = []
        self.events = []
        self.term = None

    def clone(self):
        s = _State(dict(self.env), self.this)
        s.ver = dict(self.ver)
        s.known = dict(self.known)
        s.conds = list(self.conds)
        s.events = list(self.events)
        s.term = self.term
        return s


class SymExec:
    MAX_PATHS = 4000

    def __init__(self, tu, own=lambda f: False):
        """own(fn entry) -> may calls to this function be replaced by its returned value when it is a
        single-path function without side effects?"""
        self.tu = tu
        self.own = own
        self._pure = {}
        self._paths = {}

    # ------------------------------------------------------------------ places and versions
    def place_version(self, place, st):
        v = 0
        p = place
        while isinstance(p, tuple) and p:
            v += st.ver.get(p, 0)
            if p[0] == 'field':
                p = p[1]
            elif p[0] in ('deref', 'addr'):
                p = p[1]
            else:
                break
        return v

    @staticmethod
    def version_in(ver, place):
        """version of a place under a version snapshot (Event.ver / PathResult.ver)"""
        v = 0
        p = place
        while isinstance(p, tuple) and p:
            v += ver.get(p, 0)
            if p[0] in ('field', 'deref', 'addr'):
                p = p[1]
            else:
                break
        return v

    def bump(self, place, st):
        st.ver[place] = st.ver.get(place, 0) + 1

    def place_of(self, e, st):
        """unversioned place designated by an lvalue expression, or None"""
        n = self.nf(e, st)
        n = unver(n)
        if self.is_place(n):
            return n
        return None

    @staticmethod
    def is_place(n):
        while isinstance(n, tuple) and n:
            if n[0] == 'field':
                n = n[1]
            elif n[0] == 'deref':
                n = n[1]
            elif n[0] in ('this', 'param', 'var'):
                return True
            else:
                return False
        return False

    # ------------------------------------------------------------------ normal forms
    def ct(self, e):
        return self.tu.sd(e).get('ct', '')

    def nf(self, e, st, depth=0):
        tu = self.tu
        if e is None:
            return ('none',)
        if depth > 60:
            return ('opaque', 'depth', e.get('id'))
        k = e.get('kind')
        ks = tu.kids(e)
        rec = lambda x: self.nf(x, st, depth + 1)
        if k == 'ImplicitCastExpr':
            ck = e.get('castKind')
            if ck == 'NullToPointer':
                return ('null',)
            inner = rec(ks[0]) if ks else ('none',)
            if ck == 'PointerToBoolean':
                return mk_not(mk_eq(('null',), inner))
            if ck == 'IntegralToBoolean':
                return mk_not(mk_eq(('const', 0), inner))
            return inner
        if k in TRANSP:
            return rec(ks[0]) if ks else ('none',)
        if k in EXPL_CASTS:
            if not ks:
                return ('opaque', k, e.get('id'))
            inner = rec(ks[-1])
            ct = self.ct(e)
            ict = self.ct(ks[-1])
            if ct.endswith('*') or ct.endswith('&'):
                if ct.replace('const ', '') == ict.replace('const ', ''):
                    return inner
                return ('cast', ct, inner)
            if ct == ict or not ict:
                return inner
            if e.get('castKind') in ('NoOp', 'ConstructorConversion', 'UserDefinedConversion'):
                return inner
            return ('cast', ct, inner)
        if k == 'UnaryExprOrTypeTraitExpr':
            at = (e.get('argType') or {}).get('qualType')
            cv = tu.sd(e).get('cv')
            return ('sizeof', at or '?', int(cv) if cv is not None else None) if e.get('name') == 'sizeof' else \
                ('opaque', k, e.get('id'))
        cv = tu.sd(e).get('cv')
        if cv is not None and k not in ('CXXMemberCallExpr', 'CXXOperatorCallExpr', 'CallExpr', 'DeclRefExpr',
                                        'MemberExpr'):
            try:
                return ('const', int(cv))
            except ValueError:
                pass
        if k in ('CXXNullPtrLiteralExpr', 'GNUNullExpr'):
            return ('null',)
        if k == 'CXXBoolLiteralExpr':
            return ('const', 1 if e.get('value') else 0)
        if k == 'IntegerLiteral':
            return ('const', int(e.get('value', '0')))
        if k == 'StringLiteral':
            return ('str', e.get('value'))
        if k == 'CXXThisExpr':
            return mk_addr(st.this)
        if k == 'DeclRefExpr':
            rd = e.get('referencedDecl', {})
            i = rd.get('id')
            if i in st.env:
                return st.env[i]
            if rd.get('kind') in ('FunctionDecl', 'CXXMethodDecl'):
                return ('fn', rd.get('name'))
            if cv is not None:
                return ('const', int(cv))
            return ('var', i, self.place_version(('var', i), st))
        if k == 'MemberExpr':
            fd = tu.sd(e)
            if fd.get('k') == 'member' and 'fi' not in fd and fd.get('fty') is not None:
                return ('memfn', strip_targs(fd.get('q', '')))
            base = rec(ks[0]) if ks else mk_addr(st.this)
            if e.get('isArrow') or not ks:
                base = mk_deref(base)
            name = e.get('name')
            place = ('field', unver(base), name)
            if self.is_place(place):
                return ('field', base, name, self.place_version(place, st))
            return ('field', base, name)
        if k == 'UnaryOperator':
            op = e.get('opcode')
            a = rec(ks[0])
            if op == '!':
                return mk_not(a)
            if op == '*':
                return mk_deref(a)
            if op == '&':
                return mk_addr(a)
            if op == '-':
                return ('neg', a)
            if op == '+':
                return a
            return ('unop', op, a)
        if k == 'ArraySubscriptExpr':
            return mk_deref(mk_comm('add', [rec(ks[0]), rec(ks[1])]))
        if k in ('BinaryOperator', 'CompoundAssignOperator'):
            op = e.get('opcode')
            if op == ',':
                return rec(ks[1])
            a, b = rec(ks[0]), rec(ks[1])
            return self.binop(op, a, b, ks[0], ks[1])
        if k == 'ConditionalOperator':
            c, a, b = rec(ks[0]), rec(ks[1]), rec(ks[2])
            v = self.known_value(c, st)
            if v is True:
                return a
            if v is False:
                return b
            if a == b:
                return a
            return ('cond', c, a, b)
        if k in ('CXXConstructExpr', 'CXXTemporaryObjectExpr'):
            sd = tu.sd(e)
            cty = sd.get('cty') or self.ct(e)
            args = [a for a in ks if a.get('kind') != 'CXXDefaultArgExpr']
            if len(args) == 1:
                act = self.ct(args[0])
                if self._same_class(act, cty):
                    return rec(args[0])
            return ('construct', cty) + tuple(rec(a) for a in args)
        if k == 'CXXScalarValueInitExpr':
            return ('construct', self.ct(e))
        if k == 'InitListExpr':
            return ('construct', self.ct(e)) + tuple(rec(a) for a in ks)
        if k == 'CXXNewExpr':
            sd = tu.sd(e)
            cnt = None
            if e.get('isArray') and ks:
                cnt = rec(ks[0])
            return ('new', sd.get('aty'), cnt)
        if k == 'LambdaExpr':
            lam = ('lambda', tu.sd(e).get('op'))
            return self.pred(lam, st) or lam
        if k == 'CXXDefaultArgExpr':
            return ('defarg',)
        if k == 'CXXDefaultInitExpr':
            return ('definit',)
        if k in ('CXXMemberCallExpr', 'CXXOperatorCallExpr', 'CallExpr'):
            return self.call_nf(e, st, depth)
        if k == 'CXXThrowExpr':
            return ('throw', tu.sd(e).get('tty'))
        return ('opaque', k, e.get('id'))

    @staticmethod
    def _same_class(a, b):
        norm = lambda t: t.replace('const ', '').replace('&', '').strip()
        return norm(a) == norm(b) and norm(a) != ''

    def binop(self, op, a, b, ea=None, eb=None):
        if op == '+':
            return mk_comm('add', [a, b])
        if op == '*':
            return mk_comm('mul', [a, b])
        if op == '-':
            if isinstance(b, tuple) and len(b) == 2 and b[0] == 'const' and isinstance(b[1], int):
                return mk_comm('add', [a, ('const', -b[1])])     # x - k  ==  x + (-k)
            return ('sub', a, b)
        if op in ('<', '>', '<=', '>='):
            if op in ('>', '<='):
                a, b, ea, eb = b, a, eb, ea
            r = ('lt', a, b)
            # 0 < n for unsigned n  ==  n != 0
            if a == ('const', 0) and eb is not None and self.ct(eb).startswith('unsigned'):
                r = mk_not(mk_eq(('const', 0), b))
            return mk_not(r) if op in ('<=', '>=') else r
        if op == '==':
            return mk_eq(a, b)
        if op == '!=':
            return mk_not(mk_eq(a, b))
        if op == '&&':
            return ('and', a, b)
        if op == '||':
            return ('or', a, b)
        if op == '=':
            return b
        return ('binop', op, a, b)

    def known_value(self, c, st):
        neg = False
        if isinstance(c, tuple) and c and c[0] == 'not':
            c, neg = c[1], True
        if c == ('const', 1):
            return not neg
        if c == ('const', 0):
            return neg
        v = st.known.get(unver(c))
        if v is None:
            return None
        return (not v) if neg else v

    def call_name(self, sd, call=None):
        """resolved name of a callee without the template arguments of its class; the template arguments of a
        member / function template of the analysed code are appended in braces (`Any::is{int}`) when `call` is given;
        base_name() removes them again"""
        q = strip_targs(sd.get('q', '?'))
        rec = sd.get('rec')
        if rec:
            nm = last(q)
            nm = CANON_NAME.get(nm, nm)
            q = '%s::%s' % (strip_targs(rec), nm)
        if call is not None:
            callee = self.tu.callee_fn(call)
            if callee is not None and callee.get('targs'):
                q += '{%s}' % ','.join(str(t) for t in callee['targs'])
        return q

    def default_arg(self, call_sd, index, st, depth):
        d = self.tu.node(call_sd.get('d')) if call_sd.get('d') else None
        if d is None:
            return ('defarg',)
        ps = [x for x in self.tu.kids(d) if x.get('kind') == 'ParmVarDecl']
        if index < len(ps):
            ks = self.tu.kids(ps[index])
            if ks:
                return self.nf(ks[0], st, depth + 1)
        return ('defarg',)

    def args_nf(self, sd, args, st, depth):
        out = []
        for i, a in enumerate(args):
            if a.get('kind') == 'CXXDefaultArgExpr':
                cv = self.tu.sd(a).get('cv')
                out.append(('const', int(cv)) if cv is not None else self.default_arg(sd, i, st, depth))
            else:
                out.append(self.nf(a, st, depth + 1))
        return out

    def call_nf(self, e, st, depth):
        tu = self.tu
        sd, obj, args = tu.call_parts(e)
        k = e.get('kind')
        name = self.call_name(sd, e)
        ln = last(self.call_name(sd))
        # overloaded operators written with operator syntax
        if k == 'CXXOperatorCallExpr' and not sd.get('rec'):
            vals = self.args_nf(sd, args, st, depth)
            if ln in ('operator==', 'operator!=') and len(vals) == 2:
                r = mk_eq(vals[0], vals[1])
                return r if ln == 'operator==' else mk_not(r)
            if ln in ('operator<', 'operator>', 'operator<=', 'operator>=') and len(vals) == 2:
                return self.binop(ln[8:], vals[0], vals[1])
            if ln in ('operator+', 'operator-') and len(vals) == 2:
                return self.binop(ln[8:], vals[0], vals[1])
            return ('call', name, None) + tuple(vals)
        if obj is not None or (k == 'CXXMemberCallExpr'):
            o = self.call_obj(e, obj, st, depth)
            vals = self.args_nf(sd, args, st, depth)
            if ln in ('operator==', 'operator!=') and len(vals) == 1:
                r = mk_eq(o, vals[0])
                return r if ln == 'operator==' else mk_not(r)
            if ln in ('operator<', 'operator>', 'operator<=', 'operator>=') and len(vals) == 1:
                return self.binop(ln[8:], o, vals[0])
            if ln == 'operator->' and not vals:
                return mk_addr(mk_deref(o)) if not (isinstance(o, tuple) and o and o[0] == 'addr') else o
            if ln == 'operator*' and not vals:
                return mk_deref(o)
            if ln == 'operator[]' and len(vals) == 1:
                return self.elem(o, vals[0])
            if ln == 'operator+' and len(vals) == 1:
                return mk_comm('add', [o, vals[0]])
            if ln == 'operator-' and len(vals) == 1:
                return self.binop('-', o, vals[0])
            callee = tu.callee_fn(e)
            if callee is not None and self.own(callee):
                r = self.inline(callee, o, vals, st, depth)
                if r is not None:
                    return r
            return ('call', name, o) + tuple(vals)
        # free function
        vals = self.args_nf(sd, args, st, depth)
        if name in ('std::move', 'std::forward') and len(vals) == 1:
            return vals[0]
        if name in ('std::addressof', 'std::__addressof') and len(vals) == 1:
            return mk_addr(vals[0])
        if name in ('std::begin', 'std::end', 'std::cbegin', 'std::cend') and len(vals) == 1:
            return ('call', 'std::vector::' + CANON_NAME.get(last(name), last(name)), vals[0])
        callee = tu.callee_fn(e)
        if callee is not None and self.own(callee):
            r = self.inline(callee, None, vals, st, depth)
            if r is not None:
                return r
        return ('call', name, None) + tuple(vals)

    def call_obj(self, e, obj, st, depth=0):
        """normal form of the object a member function / member operator is called on"""
        tu = self.tu
        if obj is None:
            return st.this
        o = self.nf(obj, st, depth + 1)
        if e.get('kind') == 'CXXMemberCallExpr':
            me = tu.strip(tu.kids(e)[0])
            if me is not None and me.get('kind') == 'MemberExpr' and me.get('isArrow'):
                o = mk_deref(o)
        return o

    def elem(self, seq, idx):
        # S[S.size() - 1]  ==  S.back()
        if isinstance(idx, tuple) and idx and idx[0] == 'add' and len(idx) == 3 and ('const', -1) in idx[1:]:
            s = [x for x in idx[1:] if x != ('const', -1)][0]
            if isinstance(s, tuple) and s[0] == 'call' and last(s[1]) == 'size' and unver(s[2]) == unver(seq):
                return ('call', strip_targs(s[1]).rsplit('::', 1)[0] + '::back', seq)
        return ('elem', seq, idx)

    # ------------------------------------------------------------------ inlining of pure accessors
    def inline(self, fn, obj, vals, st, depth):
        """value returned by a single-path, side-effect-free function of the analysed classes; None if it is not one"""
        if depth > 40:
            return None
        info = self.pure_info(fn)
        if info is None:
            return None
        env = dict(st.env)
        for p, v in zip(fn.get('params', []), vals):
            env[p['id']] = v
        s2 = _State(env, obj if obj is not None else st.this)
        s2.ver = st.ver
        s2.known = st.known
        g = self.tu.cfg(fn)
        ret = None
        for bid in info:
            for e in g.blocks[bid].el:
                if e[0] != 'S':
                    continue
                n = self.tu.node(e[1])
                if n is None:
                    continue
                if n.get('kind') == 'DeclStmt':
                    self.bind_decls(n, s2, depth)
                elif n.get('kind') == 'ReturnStmt':
                    ks = self.tu.kids(n)
                    ret = self.nf(ks[0], s2, depth + 1) if ks else ('none',)
        return ret

    def pure_info(self, fn):
        """block sequence of a single-path function without side effects, else None"""
        fid = fn['id']
        if fid in self._pure:
            return self._pure[fid]
        self._pure[fid] = None  # recursion guard
        g = self.tu.cfg(fn)
        if g is None:
            return None
        seq = []
        b = g.entry
        seen = set()
        ok = True
        while b != g.exit:
            if b in seen:
                ok = False
                break
            seen.add(b)
            blk = g.blocks[b]
            succ = [s for s in blk.succ if s is not None]
            if len(succ) != 1 or blk.noret:
                ok = False
                break
            seq.append(b)
            b = succ[0]
        if ok:
            # side effects: stores, increments, non-const calls on non-local objects, throws
            for bid in seq:
                for e in g.blocks[bid].el:
                    if e[0] == 'I':
                        ok = False
                    if e[0] != 'S':
                        continue
                    n = self.tu.node(e[1])
                    if n is None:
                        continue
                    k = n.get('kind')
                    if k in ('CompoundAssignOperator', 'CXXThrowExpr', 'CXXNewExpr', 'CXXDeleteExpr'):
                        ok = False
                    if k == 'BinaryOperator' and n.get('opcode') == '=':
                        ok = False
                    if k == 'UnaryOperator' and n.get('opcode') in ('++', '--'):
                        ok = False
                    if k in ('CXXMemberCallExpr', 'CXXOperatorCallExpr'):
                        sd = self.tu.sd(n)
                        if sd.get('rec') and not is_const_method(sd) and last(strip_targs(sd.get('q', ''))) not in ACCESS_ONLY:
                            callee = self.tu.callee_fn(n)
                            if callee is None or not self.own(callee) or self.pure_info(callee) is None:
                                ok = False
        self._pure[fid] = seq if ok else None
        return self._pure[fid]

    def pred(self, lam_nf, st, nparams=None):
        """('pred', body-nf) of a lambda (its parameters are ('lparam', i)); None if not a single-expression lambda"""
        if not (isinstance(lam_nf, tuple) and lam_nf and lam_nf[0] == 'lambda'):
            return None
        fn = self.tu.functions.get(lam_nf[1])
        if fn is None:
            return None
        info = self.pure_info_lambda(fn)
        if info is None:
            return None
        env = dict(st.env)
        for i, p in enumerate(fn.get('params', [])):
            env[p['id']] = ('lparam', i)
        s2 = _State(env, st.this)
        s2.ver = st.ver
        s2.known = st.known
        g = self.tu.cfg(fn)
        ret = None
        for bid in info:
            for e in g.blocks[bid].el:
                if e[0] != 'S':
                    continue
                n = self.tu.node(e[1])
                if n is None:
                    continue
                if n.get('kind') == 'DeclStmt':
                    self.bind_decls(n, s2, 0)
                elif n.get('kind') == 'ReturnStmt':
                    ks = self.tu.kids(n)
                    ret = self.nf(ks[0], s2, 1) if ks else None
        if ret is None:
            return None
        return ('pred', ret)

    def pure_info_lambda(self, fn):
        old = self.own
        try:
            self.own = lambda f: f['id'] == fn['id'] or old(f)
            return self.pure_info(fn)
        finally:
            self.own = old

    # ------------------------------------------------------------------ statements
    def bind_decls(self, n, st, depth=0):
        for v in self.tu.kids(n):
            if v.get('kind') != 'VarDecl':
                continue
            ks = [x for x in self.tu.kids(v) if x.get('kind') not in (None,)]
            if ks:
                st.env[v['id']] = self.nf(ks[-1], st, depth + 1)

    def binding_is_const(self, arg):
        """is the (place) argument bound to a const reference / read by value?"""
        n = arg
        while n is not None:
            k = n.get('kind')
            if k == 'ImplicitCastExpr':
                if n.get('castKind') == 'LValueToRValue':
                    return True
                qt = (n.get('type') or {}).get('qualType', '')
                if qt.startswith('const ') and not qt.endswith('*'):
                    return True
            elif k in TRANSP:
                pass
            elif k == 'CallExpr' and self.call_name(self.tu.sd(n)) in ('std::move', 'std::forward'):
                ks = self.tu.kids(n)
                n = ks[1] if len(ks) > 1 else None
                continue
            elif k == 'CXXStaticCastExpr':
                pass
            else:
                ct = self.ct(n)
                return ct.startswith('const ')
            ks = self.tu.kids(n)
            n = ks[0] if ks else None
        return True

    def local_var_of(self, e):
        """decl id if the expression names a local variable directly (through casts / std::move)"""
        n = e
        while n is not None:
            k = n.get('kind')
            if k == 'DeclRefExpr':
                rd = n.get('referencedDecl', {})
                return rd.get('id') if rd.get('kind') == 'VarDecl' else None
            if k in TRANSP or k == 'ImplicitCastExpr' or k == 'CXXStaticCastExpr':
                ks = self.tu.kids(n)
                n = ks[0] if ks else None
                continue
            if k == 'CallExpr' and self.call_name(self.tu.sd(n)) in ('std::move', 'std::forward'):
                ks = self.tu.kids(n)
                n = ks[1] if len(ks) > 1 else None
                continue
            return None
        return None

    def on_stmt(self, n, st):
        tu = self.tu
        k = n.get('kind')
        nc = len(st.conds)
        if k == 'DeclStmt':
            self.bind_decls(n, st)
            return
        if k == 'ReturnStmt':
            ks = tu.kids(n)
            st.term = ('return', self.nf(ks[0], st) if ks else None, n)
            return
        if k == 'CXXThrowExpr':
            st.term = ('throw', tu.sd(n).get('tty'), n)
            return
        if k in ('BinaryOperator', 'CompoundAssignOperator') and (n.get('opcode') == '=' or k == 'CompoundAssignOperator'):
            ks = tu.kids(n)
            place = self.place_of(ks[0], st)
            val = self.nf(ks[1], st)
            if k == 'CompoundAssignOperator':
                val = ('binop', n.get('opcode'), self.nf(ks[0], st), val)
            lhs = unver(self.nf(ks[0], st))
            st.events.append(Event('store', n, nf=lhs, place=place, value=val, conds_n=nc))
            if place is not None:
                self.bump(place, st)
                if place[0] == 'var':
                    st.env[place[1]] = val
            return
        if k == 'UnaryOperator' and n.get('opcode') in ('++', '--'):
            ks = tu.kids(n)
            place = self.place_of(ks[0], st)
            lv = self.local_var_of(ks[0])
            if lv is not None:
                place = ('var', lv)
            st.events.append(Event('mutate', n, nf=unver(self.nf(ks[0], st)), place=place, how=n.get('opcode'), conds_n=nc))
            if place is not None:
                self.bump(place, st)
                if place[0] == 'var':
                    st.env.pop(place[1], None)
            return
        if k in ('CXXMemberCallExpr', 'CXXOperatorCallExpr', 'CallExpr', 'CXXConstructExpr', 'CXXTemporaryObjectExpr'):
            sd, obj, args = tu.call_parts(n)
            if k in ('CXXConstructExpr', 'CXXTemporaryObjectExpr'):
                if n.get('elidable'):
                    return
            val = self.nf(n, st)
            name = self.call_name(sd, n)
            ev = Event('call', n, nf=val, how=name, conds_n=nc, extra=(sd, obj, args))
            ev.ver = dict(st.ver)
            if sd.get('rec') and k not in ('CXXConstructExpr', 'CXXTemporaryObjectExpr'):
                ev.place = unver(self.call_obj(n, obj, st))   # the object the member is called on
            ev.value = tuple(self.args_nf(sd, args, st, 0))
            st.events.append(ev)
            callee = tu.callee_fn(n)
            has_body = callee is not None and tu.cfg(callee) is not None
            muts = []
            lname = last(self.call_name(sd))
            if obj is not None and sd.get('rec') and not has_body and k not in ('CXXConstructExpr', 'CXXTemporaryObjectExpr'):
                if not is_const_method(sd) and lname not in ACCESS_ONLY:
                    p = unver(self.call_obj(n, obj, st))
                    lv = self.local_var_of(obj)
                    if lv is not None:
                        p = ('var', lv)
                        st.env.pop(lv, None)
                    if self.is_place(p) and p != ('this',):
                        muts.append((p, lname))
            if not has_body:
                for a in args:
                    if a.get('kind') == 'CXXDefaultArgExpr':
                        continue
                    if self.binding_is_const(a):
                        continue
                    p = self.place_of(a, st)
                    lv = self.local_var_of(a)
                    if lv is not None:
                        p = ('var', lv)
                        if lname not in ('move', 'forward'):
                            st.env.pop(lv, None)
                    if p is not None and p != ('this',):
                        muts.append((p, 'arg:' + lname))
            for p, how in muts:
                m = Event('mutate', n, nf=val, place=p, how=how, conds_n=nc, extra=(sd, obj, args))
                m.ver = dict(st.ver)
                m.value = ev.value
                st.events.append(m)
                self.bump(p, st)
            return

    def on_init(self, e, st):
        tu = self.tu
        init = tu.node(e[1])
        name = e[3]
        nc = len(st.conds)
        if name == '<base>':
            sd = tu.sd(tu.strip(init)) if init is not None else {}
            x = tu.strip(init)
            args = []
            if x is not None and x.get('kind') in ('CXXConstructExpr', 'CXXTemporaryObjectExpr'):
                args = self.args_nf(sd, tu.kids(x), st, 0)
            st.events.append(Event('baseinit', init, nf=tuple(args), how=self.call_name(sd) if sd else None, conds_n=nc,
                                   extra=(sd, x)))
            return
        val = self.nf(init, st) if init is not None else ('definit',)
        place = ('field', unver(st.this), name)
        st.events.append(Event('init', init, nf=val, place=place, how=name, value=val, conds_n=nc, extra=bool(e[4])))
        self.bump(place, st)

    # ------------------------------------------------------------------ paths
    def paths(self, fn, this=('this',), args=None):
        """list of PathResult for every CFG path (loops: each block at most twice); raises Unsupported"""
        key = (fn['id'], this, tuple(args) if args is not None else None)
        if key in self._paths:
            return self._paths[key]
        g = self.tu.cfg(fn)
        if g is None:
            raise Unsupported('no CFG for %s' % fn['q'])
        env = {}
        for i, p in enumerate(fn.get('params', [])):
            env[p['id']] = args[i] if args is not None and i < len(args) else ('param', i, p.get('name') or '')
        st0 = _State(env, this)
        out = []
        stack = [(g.entry, st0, ())]
        while stack:
            bid, st, visited = stack.pop()
            if visited.count(bid) >= 2:
                continue
            visited = visited + (bid,)
            blk = g.blocks[bid]
            for e in blk.el:
                if e[0] == 'S':
                    n = self.tu.node(e[1])
                    if n is not None:
                        self.on_stmt(n, st)
                elif e[0] == 'I':
                    self.on_init(e, st)
            if bid == g.exit:
                out.append(PathResult(st.conds, st.events, st.term or ('end',), st.ver, st.env, visited))
                if len(out) > self.MAX_PATHS:
                    raise Unsupported('too many paths in %s' % fn['q'])
                continue
            succ = blk.succ
            live = [(i, s) for i, s in enumerate(succ) if s is not None]
            if len(succ) > 2:
                raise Unsupported('multi-way branch in %s' % fn['q'])
            if len(succ) == 2 and blk.cond:
                cn = self.tu.node(blk.cond)
                # the value that decides at this block: for `a && b` / `a || b` it is b (a was decided earlier)
                while True:
                    x = self.tu.strip(cn)
                    if x is not None and x.get('kind') == 'BinaryOperator' and x.get('opcode') in ('&&', '||'):
                        cn = self.tu.kids(x)[1]
                    else:
                        break
                c = truth(self.nf(cn, st))
                c = self._as_cond(c, cn)
                v = self.known_value(c, st)
                for i, s in live:
                    pol = (i == 0)
                    if v is not None and v != pol:
                        continue
                    s2 = st.clone() if len(live) > 1 else st
                    base, neg = (c[1], True) if (isinstance(c, tuple) and c and c[0] == 'not') else (c, False)
                    s2.conds.append((base, pol != neg, blk.cond))
                    s2.known[unver(base)] = (pol != neg)
                    stack.append((s, s2, visited))
            elif len(live) == 1:
                stack.append((live[0][1], st, visited))
            elif len(live) == 0:
                # no successor (noreturn without edge to exit)
                out.append(PathResult(st.conds, st.events, st.term or ('end',), st.ver, st.env, visited))
            else:
                for i, s in live:
                    stack.append((s, st.clone(), visited))
        self._paths[key] = out
        return out

    def _as_cond(self, c, node):
        """conditions of pointer / integer type used directly (`if (p)`) - the cast to bool is implicit in the AST
        above the node the CFG names, so add it here"""
        ct = self.ct(node)
        if isinstance(c, tuple) and c and c[0] in ('not', 'eq', 'lt', 'and', 'or', 'const'):
            return c
        if ct.endswith('*'):
            return mk_not(mk_eq(('null',), c))
        if ct in ('unsigned long', 'int', 'unsigned int', 'long', 'unsigned char', 'char', 'short', 'unsigned short'):
            return mk_not(mk_eq(('const', 0), c))
        return c
