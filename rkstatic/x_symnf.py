"""Symbolic normal forms of expressions and path summaries of small functions (shared by rules C10 / C11).

Nothing is executed: `SymExec.paths(fn)` enumerates the paths of clang's CFG of a function (each loop body
at most once) and, along every path, evaluates every expression to a *normal form* - a nested tuple over
parameters, `this`, fields, constants and resolved callee names - in which
    * implicit casts, parentheses, temporaries, copy/move constructions of the same type and
      std::move / std::forward are transparent,
    * `a > b`, `b < a`, `!(a <= b)` coincide; `a != b` is `not eq`; `p`, `p != nullptr`, `!!p` coincide;
      `n > 0`, `n != 0`, `n` coincide for unsigned n,
    * `+` and `*` are flattened and sorted; `p[i]` is `*(p + i)`; `&*p` is `p`,
    * locals are replaced by their initialisers (so introducing / removing a temporary changes nothing),
    * calls to single-path side-effect-free functions of the analysed classes are replaced by the value
      they return (accessors such as begin()/size()/lookup()),
    * `cbegin/cend` are `begin/end`,
    * every read of a *place* (field chain rooted at this / a parameter / a local) carries the version of
      that place, bumped at each mutation, so that a value read before a mutation differs from one read after.

A path yields: the branch conditions with polarity, the ordered events (calls, stores, mutations,
member initialisers) and how it ends (return value / thrown type / fall off the end).
"""
import re

TRANSP = {'ImplicitCastExpr', 'ParenExpr', 'ExprWithCleanups', 'MaterializeTemporaryExpr', 'CXXBindTemporaryExpr',
          'ConstantExpr', 'SubstNonTypeTemplateParmExpr', 'FullExpr'}
EXPL_CASTS = {'CStyleCastExpr', 'CXXStaticCastExpr', 'CXXReinterpretCastExpr', 'CXXConstCastExpr',
              'CXXFunctionalCastExpr'}
# non-const members of std containers / smart pointers that give access to elements but leave the
# container itself (its allocation, its size, the order of its elements) alone
ACCESS_ONLY = {'begin', 'end', 'rbegin', 'rend', 'cbegin', 'cend', 'crbegin', 'crend', 'data', 'operator[]', 'at',
               'front', 'back', 'get', 'operator*', 'operator->', 'size', 'empty', 'capacity', 'operator bool'}
CANON_NAME = {'cbegin': 'begin', 'cend': 'end', 'crbegin': 'rbegin', 'crend': 'rend'}

_targs = re.compile(r'<[^<>]*>')


def strip_targs(q):
    """std::vector<int>::size -> std::vector::size (template arguments removed at every level)"""
    j = q.rfind('::operator')
    if j >= 0 and '::' not in q[j + 2:] and ('<' in q[j:] or '>' in q[j:]):
        return strip_targs(q[:j]) + q[j:]
    prev = None
    while prev != q:
        prev = q
        q = _targs.sub('', q)
    return q


def base_name(how):
    """callee name without the `{template arguments}` suffix added by SymExec.call_name"""
    return how.split('{', 1)[0] if how else how


def last(q):
    """last component of a qualified name (template arguments may contain '::')"""
    q = base_name(q)
    j = q.rfind('::operator')
    if j >= 0 and '::' not in q[j + 2:]:
        return q[j + 2:]
    depth = 0
    i = len(q) - 1
    while i > 0:
        c = q[i]
        if c == '>':
            depth += 1
        elif c == '<':
            depth -= 1
        elif c == ':' and q[i - 1] == ':' and depth == 0:
            return q[i + 1:]
        i -= 1
    return q


def is_const_method(sd):
    return bool(re.search(r'\)\s*const\b', sd.get('fty', '')))


def unver(nf):
    """drop the versions carried by place reads"""
    if isinstance(nf, tuple):
        if nf and nf[0] == 'field' and len(nf) == 4:
            return ('field', unver(nf[1]), nf[2])
        if nf and nf[0] == 'var' and len(nf) == 3:
            return ('var', nf[1])
        return tuple(unver(x) for x in nf)
    return nf


def versions_in(nf, out=None):
    """{unversioned place: set of versions} for every versioned place read inside nf"""
    if out is None:
        out = {}
    if isinstance(nf, tuple):
        if nf and nf[0] == 'field' and len(nf) == 4:
            out.setdefault(unver(nf), set()).add(nf[3])
            versions_in(nf[1], out)
        else:
            for x in nf:
                versions_in(x, out)
    return out


def contains(nf, sub):
    if nf == sub:
        return True
    if isinstance(nf, tuple):
        return any(contains(x, sub) for x in nf)
    return False


def find_all(nf, pred, out=None):
    if out is None:
        out = []
    if isinstance(nf, tuple):
        if pred(nf):
            out.append(nf)
        for x in nf:
            find_all(x, pred, out)
    return out


def show(nf):
    """compact rendering of a normal form for diagnostics"""
    nf = unver(nf)
    if not isinstance(nf, tuple) or not nf:
        return str(nf)
    h = nf[0]
    if h == 'param':
        return nf[2] if len(nf) > 2 and nf[2] else 'arg%d' % nf[1]
    if h == 'lparam':
        return 'elem' if nf[1] == 0 else 'elem%d' % nf[1]
    if h == 'this':
        return '*this'
    if h == 'field':
        b = show(nf[1])
        return nf[2] if b == '*this' else '%s.%s' % (b, nf[2])
    if h == 'const':
        return str(nf[1])
    if h == 'null':
        return 'nullptr'
    if h == 'var':
        return 'local'
    if h == 'call':
        nm = last(nf[1])
        if nf[2] is not None:
            return '%s.%s(%s)' % (show(nf[2]), nm, ', '.join(show(a) for a in nf[3:]))
        return '%s(%s)' % (nm, ', '.join(show(a) for a in nf[3:]))
    if h in ('add', 'mul'):
        return '(' + (' + ' if h == 'add' else ' * ').join(show(a) for a in nf[1:]) + ')'
    if h == 'sub':
        return '(%s - %s)' % (show(nf[1]), show(nf[2]))
    if h == 'lt':
        return '(%s < %s)' % (show(nf[1]), show(nf[2]))
    if h == 'eq':
        return '(%s == %s)' % (show(nf[1]), show(nf[2]))
    if h == 'not':
        return '!%s' % show(nf[1])
    if h == 'deref':
        return '*%s' % show(nf[1])
    if h == 'addr':
        return '&%s' % show(nf[1])
    if h == 'cast':
        return '(%s)%s' % (nf[1], show(nf[2]))
    if h == 'sizeof':
        return 'sizeof(%s)' % nf[1]
    if h == 'construct':
        return '%s(%s)' % (last(strip_targs(nf[1])), ', '.join(show(a) for a in nf[2:]))
    if h == 'new':
        return 'new %s[%s]' % (nf[1], show(nf[2]) if nf[2] is not None else '')
    if h == 'pred':
        return '[%s]' % show(nf[1])
    if h == 'cond':
        return '(%s ? %s : %s)' % (show(nf[1]), show(nf[2]), show(nf[3]))
    return '%s(%s)' % (h, ', '.join(show(a) for a in nf[1:]))


def mk_not(x):
    if isinstance(x, tuple) and x and x[0] == 'not':
        return x[1]
    if x == ('const', 0):
        return ('const', 1)
    if x == ('const', 1):
        return ('const', 0)
    return ('not', x)


def _is_int_const(x):
    return isinstance(x, tuple) and len(x) == 2 and x[0] == 'const' and isinstance(x[1], int)


def mk_eq(a, b):
    if a == b:
        return ('const', 1)
    for x, y in ((a, b), (b, a)):
        # distance(C.begin(), it) == C.size()   <=>   it == C.end()      (same container state)
        if isinstance(x, tuple) and len(x) == 5 and x[:3] == ('call', 'std::distance', None) and isinstance(x[3], tuple) and len(x[3]) == 3 \
                and x[3][:2] == ('call', 'std::vector::begin') and y == ('call', 'std::vector::size', x[3][2]):
            return mk_eq(x[4], ('call', 'std::vector::end', x[3][2]))
    if _is_int_const(a) and _is_int_const(b):
        return ('const', 0)
    for x, y in ((a, b), (b, a)):
        if x == ('null',) and isinstance(y, tuple) and y and y[0] in ('addr', 'new'):
            return ('const', 0)       # the address of an object / a fresh allocation is not null
    x, y = sorted((a, b), key=repr)
    return ('eq', x, y)


def mk_comm(op, items):
    flat = []
    for i in items:
        if isinstance(i, tuple) and i and i[0] == op:
            flat.extend(i[1:])
        else:
            flat.append(i)
    if op == 'add':
        k = sum(i[1] for i in flat if isinstance(i, tuple) and len(i) == 2 and i[0] == 'const' and isinstance(i[1], int))
        flat = [i for i in flat if not (isinstance(i, tuple) and len(i) == 2 and i[0] == 'const' and isinstance(i[1], int))]
        if k != 0:
            flat.append(('const', k))
        flat = flat or [('const', 0)]
    if op == 'mul':
        flat = [i for i in flat if i != ('const', 1)] or [('const', 1)]
    if len(flat) == 1:
        return flat[0]
    return (op,) + tuple(sorted(flat, key=repr))


def mk_deref(p):
    if isinstance(p, tuple) and p and p[0] == 'addr':
        return p[1]
    # *(v.end() - 1)  ==  v.back()
    if isinstance(p, tuple) and len(p) == 3 and p[0] == 'add' and ('const', -1) in p[1:]:
        e = [x for x in p[1:] if x != ('const', -1)]
        if e and isinstance(e[0], tuple) and e[0][0] == 'call' and e[0][1].endswith('::end') and len(e[0]) == 3:
            return ('call', e[0][1][:-len('end')] + 'back', e[0][2])
    return ('deref', p)


def mk_addr(x):
    if isinstance(x, tuple) and x and x[0] == 'deref':
        return x[1]
    return ('addr', x)


def truth(x):
    """normal form of `x` used as a condition"""
    return x


class Unsupported(Exception):
    pass


class PathResult:
    __slots__ = ('conds', 'events', 'term', 'ver', 'env', 'blocks')

    def __init__(self, conds, events, term, ver, env, blocks):
        self.conds = conds      # [(nf, polarity, cond node id)]
        self.events = events    # [Event]
        self.term = term        # ('return', nf|None, node) | ('throw', type, node) | ('end',)
        self.ver = ver
        self.env = env
        self.blocks = blocks

    def cond_of(self, nf):
        """polarity with which the (unversioned) condition nf was decided on this path, or None"""
        for c, pol, _ in self.conds:
            if unver(c) == nf:
                return pol
        return None


class Event:
    """kind: 'call' (any call / construct; nf = its value), 'store' (place, value), 'mutate' (place, how),
    'init' (field name, value, written), 'baseinit' (callee side entry, args)"""
    __slots__ = ('kind', 'node', 'nf', 'place', 'how', 'value', 'conds_n', 'extra', 'ver', 'inlined', 'depth', 'idiom')

    def __init__(self, kind, node, nf=None, place=None, how=None, value=None, conds_n=0, extra=None):
        self.kind = kind
        self.node = node
        self.nf = nf
        self.place = place
        self.how = how
        self.value = value
        self.conds_n = conds_n   # number of branch conditions decided before this event
        self.extra = extra
        self.ver = None          # versions of all places just before the event
        self.inlined = False     # call / baseinit whose callee's own events follow in the same path (statement-level inlining)
        self.depth = 0           # inlining depth at which the event happened (0 = the analysed function itself)
        self.idiom = False       # a whole loop recognised as the algorithm named in `how` (node is the loop statement)

    def __repr__(self):
        return 'Event(%s, %s, place=%s, how=%s)' % (self.kind, show(self.nf) if self.nf else None,
                                                     show(self.place) if self.place else None, self.how)


class _State:
    def __init__(self, env, this):
        self.env = env
        self.this = this
        self.ver = {}
        self.known = {}
        self.conds = []
        self.events = []
        self.term = None
        self.vals = {}      # call node id -> value returned by the (inlined / summarised) callee on this path
        self.stack = ()     # ids of the functions being inlined (recursion guard)

    def clone(self):
        s = _State(dict(self.env), self.this)
        s.ver = dict(self.ver)
        s.known = dict(self.known)
        s.conds = list(self.conds)
        s.events = list(self.events)
        s.term = self.term
        s.vals = dict(self.vals)
        s.stack = self.stack
        return s


class SymExec:
    MAX_PATHS = 4000

    MAX_INLINE_DEPTH = 6

    def __init__(self, tu, own=lambda f: False, inline_stmt=None, recognise_search=False, recognise_loops=False, flatten=()):
        """own(fn entry) -> may calls to this function be replaced by its returned value when it is a
        single-path function without side effects?
        inline_stmt(fn entry) -> follow calls to this function: its paths are spliced into the caller's paths (its
        conditions, events and returned value appear in the caller's terms; a callee path that throws ends the caller's
        path with that throw).  Used for private / static helpers and file-local functions.
        recognise_search: a callee whose summary is a linear search (first element of [first, last) whose key equals
        an argument, else last) is replaced by the value std::find_if would return, whatever it is called."""
        self.tu = tu
        self.own = own
        self.inline_stmt = inline_stmt or (lambda f: False)
        self.recognise_search = recognise_search
        # names of data members that are small aggregates held by value (struct { T *first; size_t count; } items): their members are
        # read and written as members `items.first` / `items.count` of the enclosing object, and an assignment of the whole aggregate
        # is the assignment of each of them
        self.flatten = frozenset(flatten)
        self.recognise_loops = recognise_loops     # whole-loop idioms (cursor search, shift-down compaction) are replaced by the algorithm they are
        self._loops = {}
        self._pure = {}
        self._paths = {}
        self._search = {}
        self.search_defects = {}    # function id -> (fn, text): a search helper recognised as skipping elements
        self.call_alias = {}        # function id -> (name, extra argument nfs): calls to it are kept as named calls of `name` (never followed)
        self.value_hook = None      # optional: nf -> nf|None, fixes the value of selected expressions (bounded unrolling)

    # ------------------------------------------------------------------ places and versions
    def place_version(self, place, st):
        v = 0
        p = place
        while isinstance(p, tuple) and p:
            v += st.ver.get(p, 0)
            if p[0] == 'field':
                p = p[1]
            elif p[0] in ('deref', 'addr'):
                p = p[1]
            else:
                break
        return v

    @staticmethod
    def version_in(ver, place):
        """version of a place under a version snapshot (Event.ver / PathResult.ver)"""
        v = 0
        p = place
        while isinstance(p, tuple) and p:
            v += ver.get(p, 0)
            if p[0] in ('field', 'deref', 'addr'):
                p = p[1]
            else:
                break
        return v

    def bump(self, place, st):
        st.ver[place] = st.ver.get(place, 0) + 1

    def place_of(self, e, st):
        """unversioned place designated by an lvalue expression, or None"""
        n = self.nf(e, st)
        n = unver(n)
        if self.is_place(n):
            return n
        return None

    @staticmethod
    def is_place(n):
        while isinstance(n, tuple) and n:
            if n[0] == 'field':
                n = n[1]
            elif n[0] == 'deref':
                n = n[1]
            elif n[0] in ('this', 'param', 'var'):
                return True
            else:
                return False
        return False

    # ------------------------------------------------------------------ normal forms
    def ct(self, e):
        return self.tu.sd(e).get('ct', '')

    def nf(self, e, st, depth=0):
        tu = self.tu
        if e is None:
            return ('none',)
        if depth > 60:
            return ('opaque', 'depth', e.get('id'))
        k = e.get('kind')
        if st.vals and e.get('id') in st.vals:
            return st.vals[e['id']]
        ks = tu.kids(e)
        rec = lambda x: self.nf(x, st, depth + 1)
        if k == 'ImplicitCastExpr':
            ck = e.get('castKind')
            if ck == 'NullToPointer':
                return ('null',)
            inner = rec(ks[0]) if ks else ('none',)
            if ck == 'PointerToBoolean':
                return mk_not(mk_eq(('null',), inner))
            if ck == 'IntegralToBoolean':
                return mk_not(mk_eq(('const', 0), inner))
            return inner
        if k in TRANSP:
            return rec(ks[0]) if ks else ('none',)
        if k in EXPL_CASTS:
            if not ks:
                return ('opaque', k, e.get('id'))
            inner = rec(ks[-1])
            ct = self.ct(e)
            ict = self.ct(ks[-1])
            if ct.endswith('*') or ct.endswith('&'):
                if ct.replace('const ', '') == ict.replace('const ', ''):
                    return inner
                return ('cast', ct, inner)
            if ct == ict or not ict:
                return inner
            if e.get('castKind') in ('NoOp', 'ConstructorConversion', 'UserDefinedConversion'):
                return inner
            return ('cast', ct, inner)
        if k == 'UnaryExprOrTypeTraitExpr':
            at = (e.get('argType') or {}).get('qualType')
            cv = tu.sd(e).get('cv')
            if e.get('name') == 'sizeof':
                return ('sizeof', at or '?', int(cv) if cv is not None else None)
            if e.get('name') in ('alignof', '__alignof', '_Alignof') and cv is not None:
                return ('const', int(cv))
            return ('opaque', k, e.get('id'))
        cv = tu.sd(e).get('cv')
        if cv is not None and k not in ('CXXMemberCallExpr', 'CXXOperatorCallExpr', 'CallExpr', 'DeclRefExpr',
                                        'MemberExpr'):
            try:
                return ('const', int(cv))
            except ValueError:
                pass
        if k in ('CXXNullPtrLiteralExpr', 'GNUNullExpr'):
            return ('null',)
        if k == 'CXXBoolLiteralExpr':
            return ('const', 1 if e.get('value') else 0)
        if k == 'IntegerLiteral':
            return ('const', int(e.get('value', '0')))
        if k == 'StringLiteral':
            return ('str', e.get('value'))
        if k == 'CXXThisExpr':
            return mk_addr(st.this)
        if k == 'DeclRefExpr':
            rd = e.get('referencedDecl', {})
            i = rd.get('id')
            if i in st.env:
                return st.env[i]
            if rd.get('kind') in ('FunctionDecl', 'CXXMethodDecl'):
                return ('fn', rd.get('name'))
            if cv is not None:
                return ('const', int(cv))
            return ('var', i, self.place_version(('var', i), st))
        if k == 'MemberExpr':
            fd = tu.sd(e)
            if fd.get('k') == 'member' and 'fi' not in fd and fd.get('fty') is not None:
                return ('memfn', strip_targs(fd.get('q', '')))
            base = rec(ks[0]) if ks else mk_addr(st.this)
            if e.get('isArrow') or not ks:
                base = mk_deref(base)
            name = e.get('name')
            if self.flatten:
                ub = unver(base)
                if isinstance(ub, tuple) and len(ub) == 3 and ub[0] == 'field' and ub[2] in self.flatten:
                    name = '%s.%s' % (ub[2], name)
                    base = base[1]
            place = ('field', unver(base), name)
            if self.is_place(place):
                return ('field', base, name, self.place_version(place, st))
            return ('field', base, name)
        if k == 'UnaryOperator':
            op = e.get('opcode')
            a = rec(ks[0])
            if op == '!':
                return mk_not(a)
            if op == '*':
                return mk_deref(a)
            if op == '&':
                return mk_addr(a)
            if op == '-':
                return ('neg', a)
            if op == '+':
                return a
            return ('unop', op, a)
        if k == 'ArraySubscriptExpr':
            return mk_deref(mk_comm('add', [rec(ks[0]), rec(ks[1])]))
        if k in ('BinaryOperator', 'CompoundAssignOperator'):
            op = e.get('opcode')
            if op == ',':
                return rec(ks[1])
            a, b = rec(ks[0]), rec(ks[1])
            return self.binop(op, a, b, ks[0], ks[1])
        if k == 'ConditionalOperator':
            c, a, b = rec(ks[0]), rec(ks[1]), rec(ks[2])
            v = self.known_value(c, st)
            if v is True:
                return a
            if v is False:
                return b
            if a == b:
                return a
            return ('cond', c, a, b)
        if k in ('CXXConstructExpr', 'CXXTemporaryObjectExpr'):
            sd = tu.sd(e)
            cty = sd.get('cty') or self.ct(e)
            args = [a for a in ks if a.get('kind') != 'CXXDefaultArgExpr']
            if len(args) == 1:
                act = self.ct(args[0])
                if self._same_class(act, cty):
                    return rec(args[0])
                # iterator -> const_iterator: same position
                if cty.lstrip('const ').startswith('__gnu_cxx::__normal_iterator<') and act.replace('const ', '', 1).lstrip().startswith('__gnu_cxx::__normal_iterator<'):
                    return rec(args[0])
            return ('construct', cty) + tuple(rec(a) for a in args)
        if k == 'CXXScalarValueInitExpr':
            return ('construct', self.ct(e))
        if k == 'InitListExpr':
            return ('construct', self.ct(e)) + tuple(rec(a) for a in ks)
        if k == 'CXXNewExpr':
            sd = tu.sd(e)
            cnt = None
            if e.get('isArray') and ks:
                cnt = rec(ks[0])
            return ('new', sd.get('aty'), cnt)
        if k == 'LambdaExpr':
            lam = ('lambda', tu.sd(e).get('op'))
            return self.pred(lam, st) or lam
        if k == 'CXXDefaultArgExpr':
            return ('defarg',)
        if k == 'CXXDefaultInitExpr':
            return ('definit',)
        if k in ('CXXMemberCallExpr', 'CXXOperatorCallExpr', 'CallExpr'):
            return self.call_nf(e, st, depth)
        if k == 'CXXThrowExpr':
            return ('throw', tu.sd(e).get('tty'))
        return ('opaque', k, e.get('id'))

    @staticmethod
    def _same_class(a, b):
        # top-level cv / reference only: std::pair<const K, V> is a different class from std::pair<K, V> (a converting copy)
        def norm(t):
            t = t.strip()
            while t.endswith('&'):
                t = t[:-1].strip()
            while t.startswith('const ') or t.startswith('volatile '):
                t = t.split(' ', 1)[1].strip()
            return t
        return norm(a) == norm(b) and norm(a) != ''

    def binop(self, op, a, b, ea=None, eb=None):
        if op == '+':
            # p + (x - p)  ==  x   (re-basing an iterator / pointer by its offset)
            for x, y in ((a, b), (b, a)):
                if isinstance(y, tuple) and len(y) == 3 and y[0] == 'sub' and unver(y[2]) == unver(x):
                    return y[1]
                if isinstance(y, tuple) and len(y) == 5 and y[:3] == ('call', 'std::distance', None) and unver(y[3]) == unver(x):
                    return y[4]          # it0 + distance(it0, it)  ==  it
            return mk_comm('add', [a, b])
        if op == '*':
            return mk_comm('mul', [a, b])
        if op == '-':
            if isinstance(b, tuple) and len(b) == 2 and b[0] == 'const' and isinstance(b[1], int):
                return mk_comm('add', [a, ('const', -b[1])])     # x - k  ==  x + (-k)
            if self.value_hook is not None:
                h = self.value_hook(('sub', a, b))
                if h is not None:
                    return h
            return ('sub', a, b)
        if op in ('<', '>', '<=', '>='):
            if op in ('>', '<='):
                a, b, ea, eb = b, a, eb, ea
            r = ('lt', a, b)
            if _is_int_const(a) and _is_int_const(b):
                r = ('const', 1 if a[1] < b[1] else 0)
            # 0 < n for unsigned n  ==  n != 0
            if a == ('const', 0) and eb is not None and self.ct(eb).startswith('unsigned'):
                r = mk_not(mk_eq(('const', 0), b))
            return mk_not(r) if op in ('<=', '>=') else r
        if op == '==':
            return mk_eq(a, b)
        if op == '!=':
            return mk_not(mk_eq(a, b))
        if op == '&&':
            return ('and', a, b)
        if op == '||':
            return ('or', a, b)
        if op == '=':
            return b
        return ('binop', op, a, b)

    def known_value(self, c, st):
        neg = False
        if isinstance(c, tuple) and c and c[0] == 'not':
            c, neg = c[1], True
        if c == ('const', 1):
            return not neg
        if c == ('const', 0):
            return neg
        v = st.known.get(c)        # keyed with versions: the same test after a mutation of what it reads is a new test
        if v is None:
            v = self._derived_fact(c, st)
        if v is None:
            return None
        return (not v) if neg else v

    def _derived_fact(self, c, st):
        """`(*L).get() == nullptr` is false when L = find_if(first, last, pred) did not fail and pred dereferences the element
        (`p->member`): the predicate held for *L, so *L was dereferenced on the way here"""
        if not (isinstance(c, tuple) and len(c) == 3 and c[0] == 'eq' and ('null',) in c[1:]):
            return None
        x = c[2] if c[1] == ('null',) else c[1]
        L = None
        if isinstance(x, tuple) and len(x) == 3 and x[0] == 'call' and last(str(x[1])) == 'get' and isinstance(x[2], tuple) and x[2][:1] == ('deref',):
            L = x[2][1]
        elif isinstance(x, tuple) and len(x) == 2 and x[0] == 'addr' and isinstance(x[1], tuple) and x[1][:1] == ('deref',) \
                and isinstance(x[1][1], tuple) and x[1][1][:1] == ('deref',):
            L = x[1][1][1]
        if not (isinstance(L, tuple) and len(L) == 6 and L[:3] == ('call', 'std::find_if', None) and isinstance(L[5], tuple) and L[5][0] == 'pred'):
            return None
        if not contains(L[5][1], ('deref', ('lparam', 0))):
            return None
        if st.known.get(mk_eq(L, L[4])) is False:
            return False
        return None

    def call_name(self, sd, call=None):
        """resolved name of a callee without the template arguments of its class; the template arguments of a
        member / function template of the analysed code are appended in braces (`Any::is{int}`) when `call` is given;
        base_name() removes them again"""
        q = strip_targs(sd.get('q', '?'))
        rec = sd.get('rec')
        if rec:
            nm = last(q)
            nm = CANON_NAME.get(nm, nm)
            q = '%s::%s' % (strip_targs(rec), nm)
        if call is not None:
            callee = self.tu.callee_fn(call)
            if callee is not None and callee.get('targs'):
                q += '{%s}' % ','.join(str(t) for t in callee['targs'])
        return q

    def default_arg(self, call_sd, index, st, depth):
        d = self.tu.node(call_sd.get('d')) if call_sd.get('d') else None
        if d is None:
            return ('defarg',)
        ps = [x for x in self.tu.kids(d) if x.get('kind') == 'ParmVarDecl']
        if index < len(ps):
            ks = self.tu.kids(ps[index])
            if ks:
                return self.nf(ks[0], st, depth + 1)
        return ('defarg',)

    def args_nf(self, sd, args, st, depth):
        out = []
        for i, a in enumerate(args):
            if a.get('kind') == 'CXXDefaultArgExpr':
                cv = self.tu.sd(a).get('cv')
                out.append(('const', int(cv)) if cv is not None else self.default_arg(sd, i, st, depth))
            else:
                out.append(self.nf(a, st, depth + 1))
        return out

    def call_nf(self, e, st, depth):
        tu = self.tu
        sd, obj, args = tu.call_parts(e)
        k = e.get('kind')
        name = self.call_name(sd, e)
        ln = last(self.call_name(sd))
        # overloaded operators written with operator syntax
        if k == 'CXXOperatorCallExpr' and ln == 'operator()' and not sd.get('rec') and args:
            # a closure held in a local and called: its single-expression body with the arguments in place of the parameters
            vals = self.args_nf(sd, args, st, depth)
            if isinstance(vals[0], tuple) and len(vals[0]) == 2 and vals[0][0] == 'pred':
                return self._subst(vals[0][1], {('lparam', i): v for i, v in enumerate(vals[1:])})
            return ('call', name, None) + tuple(vals)
        if k == 'CXXOperatorCallExpr' and not sd.get('rec'):
            vals = self.args_nf(sd, args, st, depth)
            if ln in ('operator==', 'operator!=') and len(vals) == 2:
                r = mk_eq(vals[0], vals[1])
                return r if ln == 'operator==' else mk_not(r)
            if ln in ('operator<', 'operator>', 'operator<=', 'operator>=') and len(vals) == 2:
                return self.binop(ln[8:], vals[0], vals[1])
            if ln in ('operator+', 'operator-') and len(vals) == 2:
                return self.binop(ln[8:], vals[0], vals[1])
            return ('call', name, None) + tuple(vals)
        if obj is not None or (k == 'CXXMemberCallExpr'):
            o = self.call_obj(e, obj, st, depth)
            vals = self.args_nf(sd, args, st, depth)
            if ln.startswith('operator'):
                # an operator of the analysed classes with a body is what its body says (before the generic readings below)
                callee0 = tu.callee_fn(e)
                if callee0 is not None and tu.cfg(callee0) is not None and self.own(callee0):
                    r0 = self.inline(callee0, o, vals, st, depth)
                    if r0 is not None:
                        return r0
            if ln in ('operator==', 'operator!=') and len(vals) == 1:
                r = mk_eq(o, vals[0])
                return r if ln == 'operator==' else mk_not(r)
            if ln in ('operator<', 'operator>', 'operator<=', 'operator>=') and len(vals) == 1:
                return self.binop(ln[8:], o, vals[0])
            if ln == 'operator->' and not vals:
                return mk_addr(mk_deref(o)) if not (isinstance(o, tuple) and o and o[0] == 'addr') else o
            if ln == 'operator*' and not vals:
                return mk_deref(o)
            if ln == 'operator[]' and len(vals) == 1:
                return self.elem(o, vals[0])
            if ln == 'operator+' and len(vals) == 1:
                return self.binop('+', o, vals[0])
            if ln == 'operator-' and len(vals) == 1:
                return self.binop('-', o, vals[0])
            callee = tu.callee_fn(e)
            if callee is not None and callee['id'] in self.call_alias:
                al = self.call_alias[callee['id']]
                return ('call', al[0], o) + tuple(vals) + tuple(al[1])
            if callee is not None and self.recognise_search and self.inline_stmt(callee) and tu.cfg(callee) is not None:
                summ = self.search_summary(callee)
                if summ is not None:
                    return self.apply_search(summ, callee, vals, this_nf=o, st=st)
            if callee is not None and self.own(callee):
                r = self.inline(callee, o, vals, st, depth)
                if r is not None:
                    return r
            return ('call', name, o) + tuple(vals)
        # free function
        vals = self.args_nf(sd, args, st, depth)
        if name in ('std::move', 'std::forward') and len(vals) == 1:
            return vals[0]
        if name in ('std::addressof', 'std::__addressof') and len(vals) == 1:
            return mk_addr(vals[0])
        if name in ('std::begin', 'std::end', 'std::cbegin', 'std::cend') and len(vals) == 1:
            return ('call', 'std::vector::' + CANON_NAME.get(last(name), last(name)), vals[0])
        callee = tu.callee_fn(e)
        if callee is not None and self.recognise_search and self.inline_stmt(callee) and tu.cfg(callee) is not None:
            summ = self.search_summary(callee)
            if summ is not None:
                return self.apply_search(summ, callee, vals, st=st)
        if callee is not None and self.own(callee):
            r = self.inline(callee, None, vals, st, depth)
            if r is not None:
                return r
        if self.value_hook is not None:
            h = self.value_hook(('call', name, None) + tuple(unver(v) for v in vals))
            if h is not None:
                return h
        return ('call', name, None) + tuple(vals)

    def call_obj(self, e, obj, st, depth=0):
        """normal form of the object a member function / member operator is called on"""
        tu = self.tu
        if obj is None:
            return st.this
        o = self.nf(obj, st, depth + 1)
        if e.get('kind') == 'CXXMemberCallExpr':
            me = tu.strip(tu.kids(e)[0])
            if me is not None and me.get('kind') == 'MemberExpr' and me.get('isArrow'):
                o = mk_deref(o)
        return o

    def elem(self, seq, idx):
        if isinstance(idx, tuple) and len(idx) == 5 and idx[:3] == ('call', 'std::distance', None) and idx[3] == ('call', 'std::vector::begin', seq):
            return mk_deref(idx[4])      # same container state: C[distance(C.begin(), it)] is *it
        # S[S.size() - 1]  ==  S.back()
        if isinstance(idx, tuple) and idx and idx[0] == 'add' and len(idx) == 3 and ('const', -1) in idx[1:]:
            s = [x for x in idx[1:] if x != ('const', -1)][0]
            if isinstance(s, tuple) and s[0] == 'call' and last(s[1]) == 'size' and unver(s[2]) == unver(seq):
                return ('call', strip_targs(s[1]).rsplit('::', 1)[0] + '::back', seq)
        return ('elem', seq, idx)

    # ------------------------------------------------------------------ inlining of pure accessors
    def inline(self, fn, obj, vals, st, depth):
        """value returned by a single-path, side-effect-free function of the analysed classes; None if it is not one"""
        if depth > 40:
            return None
        info = self.pure_info(fn)
        if info is None:
            return None
        env = dict(st.env)
        for p, v in zip(fn.get('params', []), vals):
            env[p['id']] = v
        s2 = _State(env, obj if obj is not None else st.this)
        s2.ver = st.ver
        s2.known = st.known
        g = self.tu.cfg(fn)
        ret = None
        for bid in info:
            for e in g.blocks[bid].el:
                if e[0] != 'S':
                    continue
                n = self.tu.node(e[1])
                if n is None:
                    continue
                if n.get('kind') == 'DeclStmt':
                    self.bind_decls(n, s2, depth)
                elif n.get('kind') == 'ReturnStmt':
                    ks = self.tu.kids(n)
                    ret = self.nf(ks[0], s2, depth + 1) if ks else ('none',)
        return ret

    def pure_info(self, fn):
        """block sequence of a single-path function without side effects, else None"""
        fid = fn['id']
        if fid in self._pure:
            return self._pure[fid]
        self._pure[fid] = None  # recursion guard
        g = self.tu.cfg(fn)
        if g is None:
            return None
        seq = []
        b = g.entry
        seen = set()
        ok = True
        while b != g.exit:
            if b in seen:
                ok = False
                break
            seen.add(b)
            blk = g.blocks[b]
            succ = [s for s in blk.succ if s is not None]
            if len(succ) != 1 or blk.noret:
                ok = False
                break
            seq.append(b)
            b = succ[0]
        if ok:
            # side effects: stores, increments, non-const calls on non-local objects, throws
            for bid in seq:
                for e in g.blocks[bid].el:
                    if e[0] == 'I':
                        ok = False
                    if e[0] != 'S':
                        continue
                    n = self.tu.node(e[1])
                    if n is None:
                        continue
                    k = n.get('kind')
                    if k in ('CompoundAssignOperator', 'CXXThrowExpr', 'CXXNewExpr', 'CXXDeleteExpr'):
                        ok = False
                    if k == 'BinaryOperator' and n.get('opcode') == '=':
                        ok = False
                    if k == 'UnaryOperator' and n.get('opcode') in ('++', '--'):
                        ok = False
                    if k in ('CXXMemberCallExpr', 'CXXOperatorCallExpr'):
                        sd = self.tu.sd(n)
                        if sd.get('rec') and not is_const_method(sd) and last(strip_targs(sd.get('q', ''))) not in ACCESS_ONLY:
                            callee = self.tu.callee_fn(n)
                            if callee is None or not self.own(callee) or self.pure_info(callee) is None:
                                ok = False
        self._pure[fid] = seq if ok else None
        return self._pure[fid]

    def pred(self, lam_nf, st, nparams=None):
        """('pred', body-nf) of a lambda (its parameters are ('lparam', i)); None if not a single-expression lambda"""
        if not (isinstance(lam_nf, tuple) and lam_nf and lam_nf[0] == 'lambda'):
            return None
        fn = self.tu.functions.get(lam_nf[1])
        if fn is None:
            return None
        info = self.pure_info_lambda(fn)
        if info is None:
            # `{ return a && b; }`: one effect-free expression whose short-circuit operators split the CFG - read it off the AST
            body = self.tu.body(fn)
            stmts = self._flat_stmts(body) if body is not None else []
            if len(stmts) == 1 and stmts[0].get('kind') == 'ReturnStmt' and self.tu.kids(stmts[0]) and self._effect_free(self.tu.kids(stmts[0])[0]):
                env = dict(st.env)
                for i, p in enumerate(fn.get('params', [])):
                    env[p['id']] = ('lparam', i)
                s2 = _State(env, st.this)
                s2.ver = st.ver
                s2.known = st.known
                ret = self.nf(self.tu.kids(stmts[0])[0], s2, 1)
                if ret is not None and not find_all(unver(ret), lambda t: t[0] == 'opaque'):
                    return ('pred', ret)
            return None
        env = dict(st.env)
        for i, p in enumerate(fn.get('params', [])):
            env[p['id']] = ('lparam', i)
        s2 = _State(env, st.this)
        s2.ver = st.ver
        s2.known = st.known
        g = self.tu.cfg(fn)
        ret = None
        for bid in info:
            for e in g.blocks[bid].el:
                if e[0] != 'S':
                    continue
                n = self.tu.node(e[1])
                if n is None:
                    continue
                if n.get('kind') == 'DeclStmt':
                    self.bind_decls(n, s2, 0)
                elif n.get('kind') == 'ReturnStmt':
                    ks = self.tu.kids(n)
                    ret = self.nf(ks[0], s2, 1) if ks else None
        if ret is None:
            return None
        return ('pred', ret)

    def pure_info_lambda(self, fn):
        old = self.own
        try:
            self.own = lambda f: f['id'] == fn['id'] or old(f)
            return self.pure_info(fn)
        finally:
            self.own = old

    # ------------------------------------------------------------------ statements
    def bind_decls(self, n, st, depth=0):
        for v in self.tu.kids(n):
            if v.get('kind') != 'VarDecl':
                continue
            ks = [x for x in self.tu.kids(v) if x.get('kind') not in (None,)]
            if ks:
                st.env[v['id']] = self.nf(ks[-1], st, depth + 1)

    def binding_is_const(self, arg):
        """is the (place) argument bound to a const reference / read by value?"""
        n = arg
        while n is not None:
            k = n.get('kind')
            if k in ('CXXConstructExpr', 'CXXTemporaryObjectExpr'):
                return True       # passed by value: the callee gets a copy (a moved-from local is handled where it is consumed)
            if k == 'ImplicitCastExpr':
                if n.get('castKind') == 'LValueToRValue':
                    return True
                qt = (n.get('type') or {}).get('qualType', '')
                if qt.startswith('const ') and not qt.endswith('*'):
                    return True
            elif k in TRANSP:
                pass
            elif k == 'CallExpr' and self.call_name(self.tu.sd(n)) in ('std::move', 'std::forward'):
                ks = self.tu.kids(n)
                n = ks[1] if len(ks) > 1 else None
                continue
            elif k == 'CXXStaticCastExpr':
                pass
            else:
                ct = self.ct(n)
                return ct.startswith('const ')
            ks = self.tu.kids(n)
            n = ks[0] if ks else None
        return True

    def local_var_of(self, e):
        """decl id if the expression names a local variable directly (through casts / std::move)"""
        n = e
        while n is not None:
            k = n.get('kind')
            if k == 'DeclRefExpr':
                rd = n.get('referencedDecl', {})
                if rd.get('kind') == 'VarDecl':
                    return rd.get('id')
                if rd.get('kind') == 'ParmVarDecl':
                    qt = (rd.get('type') or {}).get('qualType', '')
                    return rd.get('id') if not qt.rstrip().endswith('&') else None
                return None
            if k in TRANSP or k == 'ImplicitCastExpr' or k == 'CXXStaticCastExpr':
                ks = self.tu.kids(n)
                n = ks[0] if ks else None
                continue
            if k == 'CallExpr' and self.call_name(self.tu.sd(n)) in ('std::move', 'std::forward'):
                ks = self.tu.kids(n)
                n = ks[1] if len(ks) > 1 else None
                continue
            return None
        return None

    def splice(self, callee, this_nf, vals, st, depth, node_id):
        """run the callee's paths in the caller's state; returns the list of continuation states (a state whose
        term is ('throw', ..) ends the caller's path)"""
        saved_this, saved_term, saved_stack = st.this, st.term, st.stack
        st.this = this_nf
        st.term = None
        st.stack = st.stack + (callee['id'],)
        for p, v in zip(callee.get('params', []), vals):
            st.env[p['id']] = v
        out = []
        for s2, _ in self._walk_fn(callee, st, depth + 1):
            t = s2.term
            s2.this, s2.stack = saved_this, saved_stack
            if t is not None and t[0] == 'throw':
                out.append(s2)
                continue
            if node_id is not None:
                s2.vals[node_id] = t[1] if (t is not None and t[0] == 'return' and t[1] is not None) else ('void',)
            s2.term = saved_term
            out.append(s2)
        return out

    def on_stmt(self, n, st, depth=0):
        """process one CFG statement element; returns None, or the list of continuation states when a call was followed"""
        tu = self.tu
        k = n.get('kind')
        nc = len(st.conds)
        if k == 'DeclStmt':
            self.bind_decls(n, st)
            return
        if k == 'ReturnStmt':
            ks = tu.kids(n)
            st.term = ('return', self.nf(ks[0], st) if ks else None, n)
            return
        if k == 'CXXThrowExpr':
            st.term = ('throw', tu.sd(n).get('tty'), n)
            return
        if k in ('BinaryOperator', 'CompoundAssignOperator') and (n.get('opcode') == '=' or k == 'CompoundAssignOperator'):
            ks = tu.kids(n)
            place = self.place_of(ks[0], st)
            val = self.nf(ks[1], st)
            if k == 'CompoundAssignOperator':
                op_ = (n.get('opcode') or '')[:-1]
                val = self.binop(op_, self.nf(ks[0], st), val) if op_ in ('+', '-', '*') else ('binop', n.get('opcode'), self.nf(ks[0], st), val)
            lv_ = self.local_var_of(ks[0])
            if lv_ is not None:
                place = ('var', lv_)
            lhs = unver(self.nf(ks[0], st))
            sev = Event('store', n, nf=lhs, place=place, value=val, conds_n=nc)
            sev.depth = depth
            sev.ver = dict(st.ver)
            st.events.append(sev)
            if place is not None:
                self.bump(place, st)
                if place[0] == 'var':
                    st.env[place[1]] = val
            return
        if k == 'UnaryOperator' and n.get('opcode') in ('++', '--'):
            ks = tu.kids(n)
            place = self.place_of(ks[0], st)
            lv = self.local_var_of(ks[0])
            if lv is not None:
                place = ('var', lv)
            st.events.append(Event('mutate', n, nf=unver(self.nf(ks[0], st)), place=place, how=n.get('opcode'), conds_n=nc))
            if place is not None:
                self.bump(place, st)
                if place[0] == 'var':
                    st.env.pop(place[1], None)
            return
        if k in ('CXXMemberCallExpr', 'CXXOperatorCallExpr', 'CallExpr', 'CXXConstructExpr', 'CXXTemporaryObjectExpr'):
            sd, obj, args = tu.call_parts(n)
            if k in ('CXXConstructExpr', 'CXXTemporaryObjectExpr'):
                if n.get('elidable'):
                    return
            callee = tu.callee_fn(n)
            has_body = callee is not None and tu.cfg(callee) is not None
            is_ctor = k in ('CXXConstructExpr', 'CXXTemporaryObjectExpr')
            alias = self.call_alias.get(callee['id']) if callee is not None else None
            follow = (has_body and not is_ctor and depth < self.MAX_INLINE_DEPTH and callee['id'] not in st.stack
                      and self.inline_stmt(callee) and alias is None)
            summ = self.search_summary(callee) if (follow and self.recognise_search) else None
            if follow and callee['id'] in self.search_defects:
                follow = False        # a search helper recognised as defective is reported once, as such; its call stays a named call
            if summ is not None:
                vals = self.args_nf(sd, args, st, 0)
                val = self.apply_search(summ, callee, vals,
                                        this_nf=(self.call_obj(n, obj, st) if (sd.get('rec') and not callee.get('static')) else None), st=st)
                st.vals[n['id']] = val
                follow = False
            else:
                st.vals.pop(n['id'], None)      # re-evaluation in a later loop iteration
                val = self.nf(n, st)
                st.vals[n['id']] = val
            name = self.call_name(sd, n) if summ is None else 'std::find_if'   # a recognised search is reported as the algorithm it is
            ev = Event('call', n, nf=val, how=name, conds_n=nc, extra=(sd, obj, args))
            ev.ver = dict(st.ver)
            ev.depth = depth
            if sd.get('rec') and not is_ctor:
                ev.place = unver(self.call_obj(n, obj, st))   # the object the member is called on
            ev.value = tuple(self.args_nf(sd, args, st, 0))
            if alias is not None:
                ev.how = alias[0]
                ev.value = ev.value + tuple(alias[1])
            st.events.append(ev)
            if self.flatten and last(self.call_name(sd)) == 'operator=' and obj is not None and len(args) == 1 and sd.get('rec'):
                pl = unver(self.call_obj(n, obj, st))
                if isinstance(pl, tuple) and len(pl) == 3 and pl[0] == 'field' and pl[2] in self.flatten and self.is_place(pl):
                    if self._aggregate_store(n, pl, ev.value[0], self.ct(obj), st, nc, depth):
                        return      # the assignment of the aggregate is the assignment of its members
            if follow:
                ev.inlined = True
                this_nf = self.call_obj(n, obj, st) if (sd.get('rec') and not callee.get('static')) else st.this
                if sd.get('rec') and not callee.get('static') and obj is None:
                    this_nf = st.this
                return self.splice(callee, this_nf, list(ev.value), st, depth, n['id'])
            muts = []
            rebind = None
            lname = last(self.call_name(sd))
            if obj is not None and sd.get('rec') and not has_body and k not in ('CXXConstructExpr', 'CXXTemporaryObjectExpr'):
                if not is_const_method(sd) and lname not in ACCESS_ONLY:
                    p = unver(self.call_obj(n, obj, st))
                    lv = self.local_var_of(obj)
                    if lv is not None:
                        p = ('var', lv)
                        st.env.pop(lv, None)
                        if lname == 'operator=' and len(ev.value) == 1 and self._same_class(self.ct(obj), self.ct(args[0])):
                            rebind = (lv, ev.value[0])      # copy / move assignment of a local value object
                    if self.is_place(p) and p != ('this',):
                        muts.append((p, lname))
            if not has_body:
                for a in args:
                    if a.get('kind') == 'CXXDefaultArgExpr':
                        continue
                    if self.binding_is_const(a):
                        continue
                    p = self.place_of(a, st)
                    lv = self.local_var_of(a)
                    if lv is not None and is_ctor and len(args) == 1 and self._same_class(self.ct(a), sd.get('cty') or self.ct(n)):
                        continue      # a local / by-value parameter moved into the returned (or a new) object: it dies with it
                    if lv is not None:
                        p = ('var', lv)
                        if lname not in ('move', 'forward'):
                            st.env.pop(lv, None)
                    if p is not None and p != ('this',):
                        muts.append((p, 'arg:' + lname))
            for p, how in muts:
                m = Event('mutate', n, nf=val, place=p, how=how, conds_n=nc, extra=(sd, obj, args))
                m.ver = dict(st.ver)
                m.value = ev.value
                st.events.append(m)
                self.bump(p, st)
            if rebind is not None:
                st.env[rebind[0]] = rebind[1]
            return

    def _aggregate_members(self, val, ct, st, depth=0):
        """{member name: value} of a by-value aggregate of record type ct whose value is val, or None"""
        tu = self.tu
        rec = tu.records_by_type.get(ct.replace('const ', '').strip())
        if rec is None or depth > 4:
            return None
        names = [f_['name'] for f_ in rec['fields']]
        v = unver(val)
        if isinstance(v, tuple) and len(v) == 3 and v[0] == 'field' and v[2] in self.flatten:
            return {nm: ('field', val[1], '%s.%s' % (v[2], nm)) for nm in names}
        if isinstance(v, tuple) and v and v[0] == 'cond' and len(v) == 4:
            a = self._aggregate_members(val[2], ct, st, depth + 1)
            b = self._aggregate_members(val[3], ct, st, depth + 1)
            if a is None or b is None:
                return None
            return {nm: (a[nm] if a[nm] == b[nm] else ('cond', val[1], a[nm], b[nm])) for nm in names}
        if isinstance(v, tuple) and len(v) >= 2 and v[0] == 'construct':
            args = list(val[2:])
            if len(args) == 1 and self._same_class(str(v[1]), ct):
                inner = self._aggregate_members(args[0], ct, st, depth + 1)      # copy of another aggregate value
                if inner is not None:
                    return inner
            out = {}
            ctors = [f_ for f_ in tu.functions.values() if f_.get('recid') == rec['id'] and f_.get('ctor') and not f_['dep']
                     and len(f_.get('params', [])) == len(args) and tu.cfg(f_) is not None and (args or f_.get('ctor') == 'default' or True)]
            ctors = [f_ for f_ in ctors if f_.get('ctor') not in ('copy', 'move') or args]
            if len(ctors) == 1:
                try:
                    ps = self.paths(ctors[0], this=('agg',), args=tuple(args))
                except Unsupported:
                    return None
                if len(ps) != 1:
                    return None
                for ev in ps[0].events:
                    if ev.kind == 'init' and ev.how in names and unver(ev.value) != ('definit',):
                        out[ev.how] = ev.value
                    elif ev.kind in ('store', 'mutate'):
                        return None
            elif args:
                return None
            for f_ in rec['fields']:         # members the constructor leaves to their default member initialiser
                if f_['name'] in out:
                    continue
                fd = tu.node(f_.get('id'))
                ks = [x for x in tu.kids(fd)] if fd is not None else []
                if not ks:
                    return None
                iv = self.nf(ks[-1], st)
                if unver(iv) == ('construct', f_['ct']) or (isinstance(unver(iv), tuple) and unver(iv)[0] == 'construct' and len(unver(iv)) == 3):
                    iv = unver(iv)[2] if len(unver(iv)) == 3 else (('null',) if f_['ct'].endswith('*') else ('const', 0))
                out[f_['name']] = iv
            return out
        return None

    def _aggregate_store(self, n, place, val, ct, st, nc, depth):
        mem = self._aggregate_members(val, ct, st)
        if mem is None:
            return False
        for nm, v in mem.items():
            pl = ('field', place[1], '%s.%s' % (place[2], nm))
            sev = Event('store', n, nf=pl, place=pl, value=v, conds_n=nc)
            sev.depth = depth
            sev.ver = dict(st.ver)
            st.events.append(sev)
        for nm in mem:
            self.bump(('field', place[1], '%s.%s' % (place[2], nm)), st)
        return True

    def on_init(self, e, st, depth=0):
        tu = self.tu
        init = tu.node(e[1])
        name = e[3]
        nc = len(st.conds)
        if name == '<base>':
            sd = tu.sd(tu.strip(init)) if init is not None else {}
            x = tu.strip(init)
            args = []
            if x is not None and x.get('kind') in ('CXXConstructExpr', 'CXXTemporaryObjectExpr'):
                args = self.args_nf(sd, tu.kids(x), st, 0)
            bev = Event('baseinit', init, nf=tuple(args), how=self.call_name(sd) if sd else None, conds_n=nc, extra=(sd, x))
            bev.depth = depth
            st.events.append(bev)
            callee = tu.functions.get(sd.get('def') or sd.get('d')) if sd else None
            if callee is not None and tu.cfg(callee) is not None and depth < self.MAX_INLINE_DEPTH and callee['id'] not in st.stack \
                    and self.inline_stmt(callee):
                bev.inlined = True
                return self.splice(callee, st.this, list(args), st, depth, None)
            return
        val = self.nf(init, st) if init is not None else ('definit',)
        place = ('field', unver(st.this), name)
        iev = Event('init', init, nf=val, place=place, how=name, value=val, conds_n=nc, extra=bool(e[4]))
        iev.depth = depth
        st.events.append(iev)
        self.bump(place, st)

    # ------------------------------------------------------------------ paths
    def paths(self, fn, this=('this',), args=None):
        """list of PathResult for every CFG path (loops: each block at most twice); raises Unsupported"""
        key = (fn['id'], this, tuple(args) if args is not None else None)
        if key in self._paths:
            return self._paths[key]
        if self.tu.cfg(fn) is None:
            raise Unsupported('no CFG for %s' % fn['q'])
        env = {}
        for i, p in enumerate(fn.get('params', [])):
            env[p['id']] = args[i] if args is not None and i < len(args) else ('param', i, p.get('name') or '')
        st0 = _State(env, this)
        st0.stack = (fn['id'],)
        out = []
        for st, visited in self._walk_fn(fn, st0, 0):
            out.append(PathResult(st.conds, st.events, st.term or ('end',), st.ver, st.env, visited))
        self._paths[key] = out
        return out

    def _walk_fn(self, fn, st, depth):
        """[(state at the exit of fn, visited blocks)] for every path of fn started in state st"""
        g = self.tu.cfg(fn)
        if g is None:
            raise Unsupported('no CFG for %s' % fn['q'])
        results = []
        self._run(fn, g, g.entry, 0, st, (), depth, results, True)
        return results

    def _run(self, fn, g, bid, idx, st, visited, depth, results, fresh):
        if fresh:
            if visited.count(bid) >= 2:
                return
            visited = visited + (bid,)
        if fresh and idx == 0 and self.recognise_loops:
            li = self.loop_idioms(fn).get(bid)
            if li is not None and self._apply_loop(li, st, depth):
                self._run(fn, g, li['exit'], 0, st, visited, depth, results, True)
                return
        blk = g.blocks[bid]
        els = blk.el
        i = idx
        while i < len(els):
            e = els[i]
            forks = None
            if e[0] == 'S':
                n = self.tu.node(e[1])
                if n is not None:
                    forks = self.on_stmt(n, st, depth)
            elif e[0] == 'I':
                forks = self.on_init(e, st, depth)
            if forks is not None:
                for s2 in forks:
                    if s2.term is not None and s2.term[0] == 'throw':
                        results.append((s2, visited))      # the callee threw: this path ends here
                    else:
                        self._run(fn, g, bid, i + 1, s2, visited, depth, results, False)
                if len(results) > self.MAX_PATHS:
                    raise Unsupported('too many paths in %s' % fn['q'])
                return
            i += 1
        if bid == g.exit:
            results.append((st, visited))
            if len(results) > self.MAX_PATHS:
                raise Unsupported('too many paths in %s' % fn['q'])
            return
        succ = blk.succ
        live = [(j, s) for j, s in enumerate(succ) if s is not None]
        tn = self.tu.node(blk.term) if blk.term else None
        if tn is not None and tn.get('kind') == 'SwitchStmt' and blk.cond:
            c = self.nf(self.tu.node(blk.cond), st)
            cases = []
            default = None
            for s_ in succ:
                if s_ is None:
                    continue
                lb = self.tu.node(g.blocks[s_].label) if g.blocks[s_].label else None
                if lb is not None and lb.get('kind') == 'CaseStmt':
                    ks_ = self.tu.kids(lb)
                    v_ = self.nf(ks_[0], st) if ks_ else None
                    if not _is_int_const(v_):
                        raise Unsupported('case label without constant value in %s' % fn['q'])
                    cases.append((s_, v_))
                elif lb is not None and lb.get('kind') == 'DefaultStmt':
                    default = s_
                else:
                    default = s_ if default is None else default     # the edge taken when no case matches (no default label)
            cu = unver(c)
            if _is_int_const(cu):
                hit = [s_ for s_, v_ in cases if v_ == cu]
                tgt = hit[0] if hit else default
                if tgt is not None:
                    self._run(fn, g, tgt, 0, st, visited, depth, results, True)
                return
            for s_, v_ in cases:
                s2 = st.clone()
                e_ = mk_eq(c, v_)
                s2.conds.append((e_, True, blk.cond))
                s2.known[e_] = True
                self._run(fn, g, s_, 0, s2, visited, depth, results, True)
            if default is not None:
                s2 = st.clone()
                for s_, v_ in cases:
                    e_ = mk_eq(c, v_)
                    s2.conds.append((e_, False, blk.cond))
                    s2.known[e_] = False
                self._run(fn, g, default, 0, s2, visited, depth, results, True)
            return
        if len(succ) > 2:
            raise Unsupported('multi-way branch in %s' % fn['q'])
        if len(succ) == 2 and blk.cond:
            cn = self.tu.node(blk.cond)
            c = self._deciding(cn, st)
            v = self.known_value(c, st)
            for j, s in live:
                pol = (j == 0)
                if v is not None and v != pol:
                    continue
                s2 = st.clone() if len(live) > 1 else st
                if v is None:       # an already decided (or constant) condition adds nothing to the path
                    base, neg = (c[1], True) if (isinstance(c, tuple) and c and c[0] == 'not') else (c, False)
                    s2.conds.append((base, pol != neg, blk.cond))
                    s2.known[base] = (pol != neg)
                self._run(fn, g, s, 0, s2, visited, depth, results, True)
        elif len(live) == 1:
            self._run(fn, g, live[0][1], 0, st, visited, depth, results, True)
        elif len(live) == 0:
            results.append((st, visited))       # no successor (noreturn without edge to exit)
        else:
            for j, s in live:
                self._run(fn, g, s, 0, st.clone(), visited, depth, results, True)

    # ------------------------------------------------------------------ whole-loop idioms
    def loop_idioms(self, fn):
        """{block where the loop condition starts: dict(node, exit, A, B, inc, body)} for the while / for loops of fn whose condition
        is `B` or `A && B` (A decided in a block of its own); whether a loop is one of the recognised idioms is decided when a path
        reaches it (_apply_loop), in the state it is reached with"""
        fid = fn['id']
        if fid in self._loops:
            return self._loops[fid]
        out = {}
        self._loops[fid] = out
        tu = self.tu
        g = tu.cfg(fn)
        if g is None:
            return out
        for bid, blk in g.blocks.items():
            tn = tu.node(blk.term) if blk.term else None
            if tn is None or tn.get('kind') not in ('WhileStmt', 'ForStmt'):
                continue
            inner = tn.get('inner') or []
            if tn['kind'] == 'WhileStmt':
                ks = tu.kids(tn)
                if len(ks) != 2:
                    continue
                cond, inc, body = ks[0], None, ks[1]
            else:
                if len(inner) != 5 or inner[1] or not inner[2]:
                    continue
                cond, inc, body = inner[2], (inner[3] or None), (inner[4] or None)
            if len(blk.succ) != 2 or blk.succ[0] is None or blk.succ[1] is None:
                continue
            exit_b = blk.succ[1]
            head = bid
            c = tu.strip(cond)
            while c is not None and c.get('kind') == 'ParenExpr':
                c = tu.strip(tu.kids(c)[0])
            A, B = None, c
            if c is not None and c.get('kind') == 'BinaryOperator' and c.get('opcode') == '&&':
                hb = [b2 for b2, k2 in g.blocks.items() if k2.term == c.get('id')]
                if len(hb) != 1:
                    continue
                hblk = g.blocks[hb[0]]
                if len(hblk.succ) != 2 or hblk.succ[0] != bid or hblk.succ[1] != exit_b:
                    continue
                head = hb[0]
                A, B = tu.kids(c)
            out[head] = dict(node=tn, exit=exit_b, A=A, B=B, inc=inc, body=body)
        return out

    def _flat_stmts(self, n):
        if not n:
            return []
        k = n.get('kind')
        if k == 'CompoundStmt':
            out = []
            for x in self.tu.kids(n):
                out.extend(self._flat_stmts(x))
            return out
        if k == 'NullStmt':
            return []
        if k == 'ExprWithCleanups':
            return self._flat_stmts(self.tu.kids(n)[0])
        return [n]

    def _incr_operand(self, n):
        """operand node of `++x` / `x++` on a local variable x, else None"""
        tu = self.tu
        n = tu.strip(n) if n else None
        if n is None:
            return None
        op = None
        if n.get('kind') == 'UnaryOperator' and n.get('opcode') == '++':
            op = tu.kids(n)[0]
        elif n.get('kind') == 'CXXOperatorCallExpr' and last(self.call_name(tu.sd(n))) == 'operator++':
            ks = tu.kids(n)
            op = ks[1] if len(ks) > 1 else None
        if op is None or self.local_var_of(op) is None:
            return None
        return op

    def _effect_free(self, n):
        for x in self.tu.walk(n):
            k = x.get('kind')
            if k in ('CompoundAssignOperator', 'CXXThrowExpr', 'CXXNewExpr', 'CXXDeleteExpr'):
                return False
            if k == 'BinaryOperator' and x.get('opcode') == '=':
                return False
            if k == 'UnaryOperator' and x.get('opcode') in ('++', '--'):
                return False
            if k == 'CXXOperatorCallExpr' and last(self.call_name(self.tu.sd(x))) in ('operator++', 'operator--', 'operator=', 'operator+=', 'operator-='):
                return False
        return True

    def _loop_event(self, li, st, how, val, args):
        ev = Event('call', li['node'], nf=val, how=how, conds_n=len(st.conds), extra=({}, None, []))
        ev.ver = dict(st.ver)
        ev.value = tuple(args)
        ev.idiom = True
        st.events.append(ev)

    def _apply_loop(self, li, st, depth):
        try:
            return self._loop_search(li, st) or self._loop_compact(li, st) or self._loop_erase_if(li, st)
        except (Unsupported, KeyError, IndexError, TypeError):
            return False

    def _bound_test(self, test, cur, st):
        """`last` if the (effect-free) test is `cur != last`, else None"""
        if test is None or not self._effect_free(test):
            return None
        a = self.nf(test, st)
        if not (isinstance(a, tuple) and len(a) == 2 and a[0] == 'not' and isinstance(a[1], tuple) and a[1][0] == 'eq' and cur in a[1][1:]):
            return None
        lastnf = a[1][2] if a[1][1] == cur else a[1][1]
        if lastnf == cur or contains(lastnf, cur):
            return None
        return lastnf

    def _loop_search(self, li, st):
        """while (c != last && T(*c)) ++c;   (also as a for loop with an empty body):   c = find_if(c, last, [!T])"""
        if li['A'] is None:
            return False
        stmts = self._flat_stmts(li['body']) + ([li['inc']] if li['inc'] else [])
        if len(stmts) != 1:
            return False
        op = self._incr_operand(stmts[0])
        if op is None:
            return False
        cid = self.local_var_of(op)
        cur = self.nf(op, st)
        lastnf = self._bound_test(li['A'], cur, st)
        if lastnf is None or not self._effect_free(li['B']):
            return False
        s2 = st.clone()
        s2.vals = {}
        s2.env[cid] = ('cursor',)
        b = truth(self.nf(li['B'], s2))
        b = self._subst(b, {('deref', ('cursor',)): ('lparam', 0)})
        if contains(b, ('cursor',)) or find_all(b, lambda t: t[0] == 'opaque'):
            return False
        pr = ('pred', mk_not(b))
        val = ('call', 'std::find_if', None, cur, lastnf, pr)
        self._loop_event(li, st, 'std::find_if', val, (cur, lastnf, pr))
        st.env[cid] = val
        self.bump(('var', cid), st)
        return True

    def _loop_erase_if(self, li, st):
        """while (it != C.end()) { if (T(*it)) ++it; else it = C.erase(it); }   (either branch order): every element is tested once, the
        ones failing T are erased in place, order kept:  C.erase(remove_if(it, C.end(), [!T]), C.end())"""
        tu = self.tu
        if li['A'] is not None:
            return False
        stmts = self._flat_stmts(li['body']) + ([li['inc']] if li['inc'] else [])
        if len(stmts) != 1 or stmts[0].get('kind') != 'IfStmt':
            return False
        iks = tu.kids(stmts[0])
        if len(iks) != 3:
            return False
        br = [self._flat_stmts(iks[1]), self._flat_stmts(iks[2])]
        if len(br[0]) != 1 or len(br[1]) != 1:
            return False
        ops = [self._incr_operand(br[0][0]), self._incr_operand(br[1][0])]
        if (ops[0] is None) == (ops[1] is None):
            return False
        keep_i = 0 if ops[0] is not None else 1
        op = ops[keep_i]
        cid = self.local_var_of(op)
        cur = self.nf(op, st)
        lastnf = self._bound_test(li['B'], cur, st)
        lu = unver(lastnf) if lastnf is not None else None
        if not (isinstance(lu, tuple) and len(lu) == 3 and lu[0] == 'call' and last(str(lu[1])) == 'end' and self.is_place(lu[2])):
            return False
        C = lu[2]
        asg = tu.strip(br[1 - keep_i][0])
        if asg is None:
            return False
        if asg.get('kind') == 'BinaryOperator' and asg.get('opcode') == '=':
            lhs, rhs = tu.kids(asg)
        elif asg.get('kind') == 'CXXOperatorCallExpr' and last(self.call_name(tu.sd(asg))) == 'operator=' and len(tu.kids(asg)) == 3:
            lhs, rhs = tu.kids(asg)[1:]
        else:
            return False
        if self.local_var_of(lhs) != cid or not self._effect_free(iks[0]):
            return False
        s2 = st.clone()
        s2.vals = {}
        s2.env[cid] = ('cursor',)
        r = unver(self.nf(rhs, s2))
        while isinstance(r, tuple) and r and r[0] == 'construct' and len(r) == 3:
            r = r[2]
        if not (isinstance(r, tuple) and len(r) == 4 and r[0] == 'call' and last(str(r[1])) == 'erase' and r[2] == C and r[3] == ('cursor',)):
            return False
        t = truth(self.nf(iks[0], s2))
        t = self._subst(t, {('deref', ('cursor',)): ('lparam', 0)})
        if contains(t, ('cursor',)) or contains(unver(t), C) or find_all(t, lambda x: x[0] == 'opaque'):
            return False
        drop = mk_not(t) if keep_i == 0 else t
        pr = ('pred', drop)
        val = ('call', 'std::remove_if', None, cur, lastnf, pr)
        self._loop_event(li, st, 'std::remove_if', val, (cur, lastnf, pr))
        m = Event('mutate', li['node'], nf=('call', r[1], C, val, lastnf), place=C, how='erase', value=(val, lastnf), conds_n=len(st.conds),
                  extra=({}, None, []))
        m.ver = dict(st.ver)
        m.idiom = True
        st.events.append(m)
        self.bump(C, st)
        st.env[cid] = lastnf
        self.bump(('var', cid), st)
        return True

    def _loop_compact(self, li, st):
        """for (s = next(k); s != last; ++s) if (T(*s)) { *k = std::move(*s); ++k; }
        where k is the first element of [first, last) for which T fails (k = find_if(first, last, [!T]), k != last):  the standard
        shift-down compaction,  k = remove_if(first, last, [!T])  and  s = last"""
        tu = self.tu
        if li['A'] is not None:
            return False
        stmts = self._flat_stmts(li['body']) + ([li['inc']] if li['inc'] else [])
        if len(stmts) != 2 or stmts[0].get('kind') != 'IfStmt':
            return False
        sop = self._incr_operand(stmts[1])
        iks = tu.kids(stmts[0])
        if sop is None or len(iks) != 2:
            return False
        sid = self.local_var_of(sop)
        then = self._flat_stmts(iks[1])
        if len(then) != 2:
            return False
        kop = self._incr_operand(then[1])
        if kop is None:
            return False
        kid = self.local_var_of(kop)
        if kid == sid:
            return False
        asg = tu.strip(then[0])
        if asg is None:
            return False
        if asg.get('kind') == 'BinaryOperator' and asg.get('opcode') == '=':
            lhs, rhs = tu.kids(asg)
        elif asg.get('kind') == 'CXXOperatorCallExpr' and last(self.call_name(tu.sd(asg))) == 'operator=' and len(tu.kids(asg)) == 3:
            lhs, rhs = tu.kids(asg)[1:]
        else:
            return False
        scur = self.nf(sop, st)
        kcur = self.nf(kop, st)
        lastnf = self._bound_test(li['B'], scur, st)
        if lastnf is None or not self._effect_free(iks[0]):
            return False
        s2 = st.clone()
        s2.vals = {}
        s2.env[sid] = ('cursor',)
        s2.env[kid] = ('kcursor',)
        if unver(self.nf(lhs, s2)) != ('deref', ('kcursor',)) or unver(self.nf(rhs, s2)) != ('deref', ('cursor',)):
            return False
        t = truth(self.nf(iks[0], s2))
        t = self._subst(t, {('deref', ('cursor',)): ('lparam', 0)})
        if contains(t, ('cursor',)) or contains(t, ('kcursor',)) or find_all(t, lambda x: x[0] == 'opaque'):
            return False
        ku = unver(kcur)
        if unver(scur) not in (('call', 'std::next', None, ku, ('const', 1)), ('call', 'std::next', None, ku), mk_comm('add', [ku, ('const', 1)])):
            return False
        # the hole: k is a position inside the range (the result of a search that did not fail)
        if not (isinstance(ku, tuple) and len(ku) == 6 and ku[:3] == ('call', 'std::find_if', None) and ku[4] == unver(lastnf)
                and isinstance(ku[5], tuple) and ku[5][0] == 'pred'):
            return False
        if self.known_value(mk_eq(kcur, lastnf), st) is not False:
            return False
        if ku[5][1] == unver(mk_not(t)):
            # k is the first element for which T fails: everything before it is kept in place, so this is remove_if over [first, last)
            pr = ('pred', mk_not(t))
            val = ('call', 'std::remove_if', None, kcur[3], lastnf, pr)
            self._loop_event(li, st, 'std::remove_if', val, (kcur[3], lastnf, pr))
        else:
            # the element at k is dropped whatever it is; behind it the elements satisfying T are kept, in order
            pr = ('pred', t)
            val = ('call', 'loop::shift_down', None, kcur, lastnf, pr)
            self._loop_event(li, st, 'loop::shift_down', val, (kcur, lastnf, pr))
        st.env[kid] = val
        st.env[sid] = lastnf
        self.bump(('var', kid), st)
        self.bump(('var', sid), st)
        return True

    # ------------------------------------------------------------------ linear-search helpers
    def search_summary(self, fn):
        """(first, last, predicate body over ('lparam',0)) in terms of fn's parameters if fn is a linear search:
        it walks a cursor from `first`, tests `cursor == last` before it tests the element, returns the cursor at the
        first element whose test `key(elem) == K` holds and `last` (the cursor value equal to it) when there is none;
        it has no other effect.  None otherwise."""
        fid = fn['id']
        if fid in self._search:
            return self._search[fid]
        self._search[fid] = None
        saved = (self.inline_stmt, self.recognise_search, self._paths)
        self.inline_stmt, self.recognise_search, self._paths = (lambda f: False), False, {}   # own memo: no helper-following here
        try:
            try:
                ps = self.paths(fn)
            except Unsupported:
                return None
        finally:
            self.inline_stmt, self.recognise_search, self._paths = saved
        r_ = self._cursor_search(fn, ps)
        if r_ is None:
            r_ = self._index_search(fn, ps)
        if r_ is None:
            r_ = self._counted_search(fn, ps)
        self._search[fid] = r_
        return r_

    def _index_search(self, fn, ps):
        """search by index: i = 0; while (i < C.size() && !(key(C[i]) == K)) ++i; return i;  - ('index', C, body)"""
        cursor = None
        for p in ps:
            for ev in p.events:
                if ev.kind in ('store', 'init', 'baseinit'):
                    return None
                if ev.kind == 'mutate':
                    if ev.place is None or ev.place[0] != 'var' or ev.how != '++':
                        return None
                    if cursor is not None and cursor != ev.place:
                        return None
                    cursor = ev.place
            if p.term[0] != 'return' or p.term[1] is None:
                return None
        if cursor is None:
            return None
        C = None
        body = None
        for p in ps:
            incs = sorted(ev.conds_n for ev in p.events if ev.kind == 'mutate')
            conds = [(unver(c), pol) for c, pol, _ in p.conds]
            cur = ('const', 0)
            k = 0
            ninc = 0
            done = False
            first = True
            while k < len(conds):
                c, pol = conds[k]
                # bound test: cur < C.size()   (0 < n for unsigned n is normalised to n != 0)
                if first and isinstance(c, tuple) and c[0] == 'eq' and ('const', 0) in c[1:]:
                    n_ = c[2] if c[1] == ('const', 0) else c[1]
                    inside = not pol
                elif isinstance(c, tuple) and c[0] == 'lt' and c[1] == cur:
                    n_ = c[2]
                    inside = pol
                else:
                    return None
                if not (isinstance(n_, tuple) and n_[0] == 'call' and last(n_[1]) == 'size' and len(n_) == 3):
                    return None
                if C is None:
                    C = n_[2]
                elif C != n_[2]:
                    return None
                first = False
                k += 1
                if not inside:
                    done = True
                    break
                if k >= len(conds):
                    return None
                c, pol = conds[k]
                elem = ('elem', C, cur)
                if not contains(c, elem):
                    return None
                b = self._subst(c, {elem: ('lparam', 0)})
                if contains(b, cursor):
                    return None
                if body is None:
                    body = b
                elif body != b:
                    return None
                k += 1
                if pol:
                    done = True
                    break
                if ninc >= len(incs) or incs[ninc] != k:
                    return None
                ninc += 1
                cur = cursor
            if not done or k != len(conds) or ninc != len(incs):
                return None
            if unver(p.term[1]) != cur:
                return None
        if C is None or body is None or not (isinstance(body, tuple) and body[0] == 'eq') or contains(C, cursor):
            return None
        return ('index', C, body)

    def _counted_search(self, fn, ps):
        """hand-unrolled / counted linear search: a counter is set to distance(first, last), the cursor (first parameter) is only
        incremented, every element is compared once in order, the first match returns the cursor and no match returns last.
        Decided by running the function for every concrete element count N = 0 .. c + 2m + 1 (c the largest constant the counter is
        compared with, m the largest step): the counter only occurs in comparisons with constants and is lowered by constants, so
        for larger N the first loop iteration leads to exactly the state of the run with N - m."""
        params = fn.get('params', [])
        if len(params) < 3:
            return None
        P0 = ('param', 0, params[0].get('name') or '')
        P1 = ('param', 1, params[1].get('name') or '')
        dist = (('call', 'std::distance', None, P0, P1), ('sub', P1, P0))
        counter = None
        consts = [0]
        for p in ps:
            for ev in p.events:
                if ev.kind in ('init', 'baseinit'):
                    return None
                if ev.kind == 'store':
                    if not (ev.place is not None and ev.place[0] == 'var'):
                        return None
                    v = unver(ev.value)
                    if not (isinstance(v, tuple) and v[0] == 'add' and any(d in v[1:] for d in dist) or v in dist):
                        if not (isinstance(v, tuple) and v[0] == 'add'):
                            return None
                    if counter is not None and counter != ev.place:
                        return None
                    counter = ev.place
                    consts += [abs(x[1]) for x in (v[1:] if isinstance(v, tuple) and v[0] == 'add' else ()) if _is_int_const(x)]
                if ev.kind == 'mutate':
                    if ev.place is None or ev.place[0] != 'var':
                        return None
            for c, pol, _ in p.conds:
                cu = unver(c)
                if any(contains(cu, d) for d in dist):
                    # the counter may only be compared with constants
                    if not (isinstance(cu, tuple) and cu[0] in ('lt', 'eq') and any(_is_int_const(x) or (isinstance(x, tuple) and x[0] == 'add'
                            and all(_is_int_const(y) or y in dist for y in x[1:])) or x in dist for x in cu[1:])):
                        return None
                    consts += [abs(y[1]) for x in cu[1:] for y in ((x,) if _is_int_const(x) else x[1:] if isinstance(x, tuple) and x[0] == 'add' else ())
                               if _is_int_const(y)]
        if not any(any(contains(unver(c), d) for d in dist) for p in ps for c, pol, _ in p.conds):
            return None
        cmax = max(consts)
        if cmax > 64:
            return None
        body = None
        defect = None
        saved = (self.inline_stmt, self.recognise_search, self._paths, self.value_hook)
        try:
            for N in range(0, 3 * cmax + 2):
                self.inline_stmt, self.recognise_search, self._paths = (lambda f: False), False, {}
                self.value_hook = lambda nf, N=N: ('const', N) if nf in dist else None
                try:
                    runs = self.paths(fn)
                except Unsupported:
                    return None
                for p in runs:
                    incs = [ev for ev in p.events if ev.kind == 'mutate' and ev.how in ('++', 'operator++')]
                    if any(ev.kind == 'mutate' and ev not in incs for ev in p.events):
                        return None
                    curs = {ev.place for ev in incs}
                    if len(curs) > 1:
                        return None
                    cursor = curs.pop() if curs else None
                    positions = []        # element index (number of increments so far) of every comparison, in order
                    matched = None
                    for k, (c, pol, _) in enumerate(p.conds):
                        cu = unver(c)
                        before = len([e for e in incs if e.conds_n <= k])
                        cur = P0 if before == 0 else cursor
                        elem = ('deref', cur)
                        if not contains(cu, elem) or matched is not None:
                            return None
                        b = self._subst(cu, {elem: ('lparam', 0)})
                        if contains(b, P0) or (cursor is not None and contains(b, cursor)):
                            return None
                        if body is None:
                            body = b
                        elif body != b:
                            return None
                        positions.append(before)
                        if pol:
                            matched = before
                    if p.term[0] != 'return' or p.term[1] is None:
                        return None
                    rv = unver(p.term[1])
                    if matched is not None:
                        # a match returns the cursor standing on the matching element
                        if rv != (P0 if matched == 0 else cursor) or len(incs) != matched:
                            return None
                        if positions != list(range(matched + 1)) and defect is None:
                            defect = (N, positions, 'match')
                    else:
                        ends_at_last = rv == P1 or (rv == (P0 if not incs else cursor) and len(incs) == N)
                        if not ends_at_last:
                            return None
                        if positions != list(range(N)) and defect is None:
                            defect = (N, positions, 'nomatch')
        finally:
            self.inline_stmt, self.recognise_search, self._paths, self.value_hook = saved
        if body is None or not (isinstance(body, tuple) and body[0] == 'eq'):
            return None
        if defect is not None:
            N_, pos_, how_ = defect
            missing = [i for i in range(N_) if i not in pos_]
            beyond = [i for i in pos_ if i >= N_]
            self.search_defects[fn['id']] = (fn, 'with %d element(s) to search it compares the elements at positions %s%s: %s' % (
                N_, pos_ if pos_ else 'none', ' and then reports "not found"' if how_ == 'nomatch' else ' before it reports a match',
                '; '.join(x for x in ('position(s) %s are never looked at' % missing if missing else '',
                                      'position(s) %s lie outside the range' % beyond if beyond else '') if x) or 'not each position once, in order'))
            return None
        return (P0, P1, body)

    def _cursor_search(self, fn, ps):
        cursor = None
        for p in ps:
            for ev in p.events:
                if ev.kind in ('store', 'init', 'baseinit'):
                    return None
                if ev.kind == 'mutate':
                    if ev.place is None or ev.place[0] != 'var' or ev.how not in ('++', 'operator++'):
                        return None
                    if cursor is not None and cursor != ev.place:
                        return None
                    cursor = ev.place
            if p.term[0] != 'return' or p.term[1] is None:
                return None
        if cursor is None:
            return None
        c0s = {unver(p.term[1]) for p in ps if not any(ev.kind == 'mutate' for ev in p.events)}
        if len(c0s) != 1:
            return None
        c0 = c0s.pop()
        if contains(c0, cursor):
            return None
        last_nf = None
        body = None
        for p in ps:
            incs = sorted(ev.conds_n for ev in p.events if ev.kind == 'mutate')
            cur = c0
            k = 0              # index into conds
            ninc = 0
            conds = [(unver(c), pol) for c, pol, _ in p.conds]
            done = False
            while k < len(conds):
                c, pol = conds[k]
                # end test
                if not (isinstance(c, tuple) and c[0] == 'eq' and cur in c[1:]):
                    return None
                other = c[2] if c[1] == cur else c[1]
                if contains(other, cursor) or other == cur:
                    return None
                if last_nf is None:
                    last_nf = other
                elif last_nf != other:
                    return None
                k += 1
                if pol:                       # cursor == last: must return now
                    done = True
                    break
                if k >= len(conds):
                    return None
                c, pol = conds[k]
                elem = ('deref', cur)
                if not contains(c, elem):
                    return None
                b = self._subst(c, {elem: ('lparam', 0)})
                if contains(b, cur) or contains(b, cursor):
                    return None
                if body is None:
                    body = b
                elif body != b:
                    return None
                k += 1
                if pol:                       # element matches: must return now
                    done = True
                    break
                # no match: exactly one increment before the next test
                if ninc >= len(incs) or incs[ninc] != k:
                    return None
                ninc += 1
                cur = cursor
            if not done or k != len(conds) or ninc != len(incs):
                return None
            if unver(p.term[1]) != cur:
                return None
        if last_nf is None or body is None:
            return None
        if not (isinstance(body, tuple) and body[0] == 'eq'):
            return None
        return (c0, last_nf, body)

    def lookup_form(self, fn, this=('this',), args=None):
        """paths of a function that starts with its own search loop, rewritten as if it had called
        `L = std::find_if(first, last, pred)` and branched on `L == last`: one path for the match (the loop variable replaced by L, the
        statements executed inside the loop on a match as its events) and one path per way the code after the loop can run.  None when the
        function does not have that shape."""
        try:
            ps = self.paths(fn, this=this, args=args)
        except Unsupported:
            return None
        cursor = None
        for p in ps:
            for ev in p.events:
                if ev.kind == 'mutate' and ev.place is not None and ev.place[0] == 'var' and ev.how in ('++', 'operator++'):
                    if cursor is not None and cursor != ev.place:
                        return None
                    cursor = ev.place
        if cursor is None:
            return None
        last_nf = None
        for p in ps:
            for c, pol, _ in p.conds:
                cu = unver(c)
                if isinstance(cu, tuple) and cu[0] == 'eq' and cursor in cu[1:]:
                    o = cu[2] if cu[1] == cursor else cu[1]
                    if last_nf is None:
                        last_nf = o
                    elif last_nf != o:
                        return None
        if last_nf is None or contains(last_nf, cursor):
            return None
        c0 = None
        body = None
        parsed = []
        for p in ps:
            incs = sorted(ev.conds_n for ev in p.events if ev.kind == 'mutate' and ev.place == cursor)
            conds = [(unver(c), pol) for c, pol, _ in p.conds]
            if not conds:
                return None
            first = conds[0][0]
            if not (isinstance(first, tuple) and first[0] == 'eq' and last_nf in first[1:]):
                return None
            start = first[2] if first[1] == last_nf else first[1]
            if c0 is None:
                c0 = start
            elif c0 != start:
                return None
            cur = c0
            k = 0
            ninc = 0
            outcome = None
            while k < len(conds):
                c, pol = conds[k]
                if not (isinstance(c, tuple) and c[0] == 'eq' and cur in c[1:] and last_nf in c[1:]):
                    return None
                k += 1
                if pol:
                    outcome = ('end', cur, k)
                    break
                if k >= len(conds):
                    return None
                c, pol = conds[k]
                elem = ('deref', cur)
                if not contains(c, elem):
                    return None
                b = self._subst(c, {elem: ('lparam', 0)})
                if contains(b, cur) or contains(b, cursor):
                    return None
                if body is None:
                    body = b
                elif body != b:
                    return None
                k += 1
                if pol:
                    outcome = ('match', cur, k)
                    break
                if ninc >= len(incs) or incs[ninc] != k:
                    return None
                ninc += 1
                cur = cursor
            if outcome is None or ninc != len(incs):
                return None
            if outcome[0] == 'match' and k != len(conds):
                pass      # further tests inside the loop body after the match are part of the match outcome
            # events before the decision must be reads only (the search itself has no effect)
            for ev in p.events:
                if ev.conds_n < outcome[2] and ev.kind in ('store', 'init', 'baseinit'):
                    return None
                if ev.conds_n < outcome[2] and ev.kind == 'mutate' and ev.place != cursor:
                    return None
            parsed.append((p, outcome))
        if c0 is None or body is None or contains(c0, cursor):
            return None
        L = ('call', 'std::find_if', None, c0, last_nf, ('pred', body))
        test = mk_eq(L, last_nf)
        out = []
        seen = set()
        for p, (kind, cur, k) in parsed:
            sub = {cur: L} if kind == 'match' else {}
            def sb(x, sub=sub):
                return self._subst(unver(x), sub) if x is not None else None
            conds = [(test, kind == 'end', None)] + [(sb(c), pol, n) for c, pol, n in p.conds[k:]]
            events = []
            for ev in p.events:
                if ev.conds_n < k:
                    continue
                e2 = Event(ev.kind, ev.node, nf=sb(ev.nf) if isinstance(ev.nf, tuple) else ev.nf, place=sb(ev.place) if ev.place is not None else None,
                           how=ev.how, value=(tuple(sb(v) for v in ev.value) if isinstance(ev.value, tuple) and ev.kind != 'store' else
                                              (sb(ev.value) if ev.value is not None else None)),
                           conds_n=ev.conds_n - k + 1, extra=ev.extra)
                e2.ver, e2.inlined, e2.depth = {}, ev.inlined, ev.depth
                events.append(e2)
            t = p.term
            term = ('return', sb(t[1]), t[2]) if t[0] == 'return' else t
            sig = (tuple((c, pol) for c, pol, _ in conds), tuple((e.kind, e.how, repr(e.nf), repr(e.value)) for e in events), repr(term[:2]))
            if sig in seen:
                continue       # the same outcome reached after a different number of iterations
            seen.add(sig)
            out.append(PathResult(conds, events, term, {}, dict(p.env), p.blocks))
        return out

    def function_search_shape(self, fn):
        """a function that *is* a linear search with its own outcomes (a range-for / iterator loop that returns from inside and
        does something else after the loop): dict(first, last, body over ('lparam',0), match=(kind, value over ('cursor',)),
        end=(kind, value)) - it behaves like `L = find_if(first, last, body); if (L == last) <end> else <match with cursor = L>`.
        None when the paths do not have that shape."""
        try:
            ps = self.paths(fn)
        except Unsupported:
            return None
        cursor = None
        for p in ps:
            for ev in p.events:
                if ev.kind in ('store', 'init', 'baseinit'):
                    return None
                if ev.kind == 'mutate':
                    if ev.place is None or ev.place[0] != 'var' or ev.how not in ('++', 'operator++'):
                        return None
                    if cursor is not None and cursor != ev.place:
                        return None
                    cursor = ev.place
        if cursor is None:
            return None
        # the end bound: what the cursor is compared with after an increment; the start: what is compared with it first
        last_nf = None
        for p in ps:
            for c, pol, _ in p.conds:
                cu = unver(c)
                if isinstance(cu, tuple) and cu[0] == 'eq' and cursor in cu[1:]:
                    o = cu[2] if cu[1] == cursor else cu[1]
                    if last_nf is None:
                        last_nf = o
                    elif last_nf != o:
                        return None
        if last_nf is None or contains(last_nf, cursor):
            return None
        c0 = None
        body = None
        match = None
        endo = None

        def term_of(p, cur):
            t = p.term
            if t[0] == 'return':
                v = self._subst(unver(t[1]), {cur: ('cursor',)}) if t[1] is not None else None
                return ('return', v)
            if t[0] == 'throw':
                return ('throw', t[1])
            return (t[0], None)

        for p in ps:
            incs = sorted(ev.conds_n for ev in p.events if ev.kind == 'mutate')
            conds = [(unver(c), pol) for c, pol, _ in p.conds]
            if not conds:
                return None
            first = conds[0][0]
            if not (isinstance(first, tuple) and first[0] == 'eq' and last_nf in first[1:]):
                return None
            start = first[2] if first[1] == last_nf else first[1]
            if c0 is None:
                c0 = start
            elif c0 != start:
                return None
            cur = c0
            k = 0
            ninc = 0
            outcome = None
            while k < len(conds):
                c, pol = conds[k]
                if not (isinstance(c, tuple) and c[0] == 'eq' and cur in c[1:] and last_nf in c[1:]):
                    return None
                k += 1
                if pol:
                    outcome = ('end', cur)
                    break
                if k >= len(conds):
                    return None
                c, pol = conds[k]
                elem = ('deref', cur)
                if not contains(c, elem):
                    return None
                b = self._subst(c, {elem: ('lparam', 0)})
                if contains(b, cur) or contains(b, cursor):
                    return None
                if body is None:
                    body = b
                elif body != b:
                    return None
                k += 1
                if pol:
                    outcome = ('match', cur)
                    break
                if ninc >= len(incs) or incs[ninc] != k:
                    return None
                ninc += 1
                cur = cursor
            if outcome is None or k != len(conds) or ninc != len(incs):
                return None
            t = term_of(p, outcome[1])
            if outcome[0] == 'end':
                if t[1] is not None and isinstance(t[1], tuple) and (contains(t[1], ('cursor',)) and False):
                    return None
                if endo is None:
                    endo = t
                elif endo != t:
                    return None
            else:
                if match is None:
                    match = t
                elif match != t:
                    return None
        if None in (c0, body, match, endo) or contains(c0, cursor):
            return None
        return dict(first=c0, last=last_nf, body=body, match=match, end=endo)

    def _stamp(self, nf, st):
        """give the place reads of a summary (written without versions) the versions current in st"""
        if isinstance(nf, tuple):
            if len(nf) == 3 and nf[0] == 'field' and isinstance(nf[2], str):
                base = self._stamp(nf[1], st)
                place = ('field', unver(base), nf[2])
                if self.is_place(place):
                    return ('field', base, nf[2], self.place_version(place, st))
                return ('field', base, nf[2])
            return tuple(self._stamp(x, st) for x in nf)
        return nf

    def apply_search(self, summ, fn, vals, this_nf=None, st=None):
        r = self._apply_search(summ, fn, vals, this_nf)
        return self._stamp(r, st) if st is not None else r

    def _apply_search(self, summ, fn, vals, this_nf=None):
        m = {}
        for i, p in enumerate(fn.get('params', [])):
            if i < len(vals):
                m[('param', i, p.get('name') or '')] = vals[i]
        if this_nf is not None:
            m[('this',)] = this_nf
        if summ and summ[0] == 'index':
            # position of the first matching element of container C, C.size() when there is none:  distance(C.begin(), find_if(...))
            _tag, C, body = summ
            C = self._subst(C, m)
            b, e_ = ('call', 'std::vector::begin', C), ('call', 'std::vector::end', C)
            return ('call', 'std::distance', None, b, ('call', 'std::find_if', None, b, e_, ('pred', self._subst(body, m))))
        c0, last_nf, body = summ
        return ('call', 'std::find_if', None, self._subst(c0, m), self._subst(last_nf, m), ('pred', self._subst(body, m)))

    def _subst(self, nf, m):
        if nf in m:
            return m[nf]
        if isinstance(nf, tuple):
            return tuple(self._subst(x, m) for x in nf)
        return nf

    def _deciding(self, cn, st):
        """the condition that decides at a branch: for `a && b` / `a || b` the left operand was decided in an earlier
        block - if it short-circuited, the whole expression is already known, otherwise the right operand decides"""
        x = self.tu.strip(cn)
        if x is not None and x.get('kind') == 'ParenExpr':
            x = self.tu.strip(self.tu.kids(x)[0])
        if x is not None and x.get('kind') == 'BinaryOperator' and x.get('opcode') in ('&&', '||'):
            l, r = self.tu.kids(x)
            lc = self._deciding(l, st)
            lv = self.known_value(lc, st)
            if x['opcode'] == '&&' and lv is False:
                return ('const', 0)
            if x['opcode'] == '||' and lv is True:
                return ('const', 1)
            return self._deciding(r, st)
        if x is not None and x.get('kind') == 'UnaryOperator' and x.get('opcode') == '!':
            return mk_not(self._deciding(self.tu.kids(x)[0], st))
        c = truth(self.nf(cn, st))
        return self._as_cond(c, cn)

    def _as_cond(self, c, node):
        """conditions of pointer / integer type used directly (`if (p)`) - the cast to bool is implicit in the AST
        above the node the CFG names, so add it here"""
        ct = self.ct(node)
        if isinstance(c, tuple) and c and c[0] in ('not', 'eq', 'lt', 'and', 'or', 'const'):
            return c
        if ct.endswith('*'):
            return mk_not(mk_eq(('null',), c))
        if ct in ('unsigned long', 'int', 'unsigned int', 'long', 'unsigned char', 'char', 'short', 'unsigned short'):
            return mk_not(mk_eq(('const', 0), c))
        return c
