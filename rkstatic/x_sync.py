"""Synchronisation vocabulary (DESIGN.md Appendix A) shared by the C03 and C12 rules.

Everything is resolved through the callee / member *declaration* recorded in the side table
(`tu.sd(n)['q']`, `['rec']`), never through source text.  One CFG element is decoded into one event:

    ('store', field, value, order, node)     std::atomic<T>::operator=(v) / .store(v[,mo]); plain `f = v` on a data member
    ('load',  field, order, node)            std::atomic<T>::operator T() / .load([mo])
    ('rmw',   field, name, node)             exchange / compare_exchange_* / fetch_* / ++ / -- on an atomic member
    ('lock',  var_id, mutex_field, held)     declaration of a lock_guard / unique_lock / scoped_lock variable
    ('unlock-scope', var_id)                 CFG AutomaticObjectDtor of such a variable
    ('lk-unlock', var_id) ('lk-lock', var_id)  unique_lock::unlock() / lock()
    ('m-lock', mutex_field) ('m-unlock', mutex_field)   std::mutex::lock()/unlock() called directly on a member
    ('wait', cv_field, lock_var_id, pred_expr|None, flavour, node)   condition_variable::wait / wait_for / wait_until
    ('notify', cv_field, node)               notify_one / notify_all
    ('call', qualified_name, node)           any other call

`field` is `(record qualified name without template arguments, member name)`.
"""

SEQ_CST = 5
ORDER_NAMES = {0: 'memory_order_relaxed', 1: 'memory_order_consume', 2: 'memory_order_acquire',
               3: 'memory_order_release', 4: 'memory_order_acq_rel', 5: 'memory_order_seq_cst'}
LOCK_RECS = ('std::lock_guard', 'std::unique_lock', 'std::scoped_lock')
ATOMIC_RECS = ('std::atomic', 'std::__atomic_base', 'std::atomic_flag')
CALLS = ('CXXMemberCallExpr', 'CXXOperatorCallExpr', 'CallExpr')


def fty_noexcept(fty):
    """is the function type (as printed in the side table) declared noexcept?  `noexcept(<expr>)` counts: for the standard library
    types met here the expression (allocator traits) is true"""
    import re
    return bool(re.search(r'\)\s*(const)?\s*(volatile)?\s*&{0,2}\s*noexcept', fty or ''))


def last(q):
    return (q or '').split('::')[-1]


def is_atomic_type(ct):
    ct = (ct or '').replace('const ', '').replace('volatile ', '').strip()
    return ct.startswith('std::atomic<') or ct == 'std::atomic_flag'


class Sync:
    def __init__(self, tu):
        self.tu = tu
        # representation independence of boolean flags: a flag is a std::atomic<bool> member, or one bit of an atomic integer
        # member.  bitwords: (record, member) -> {bit value: canonical flag field}; operations on such a word are decoded into
        # the same load/store events on the canonical flag fields as operations on std::atomic<bool> members.
        self.bitwords = {}
        self.consts = {}          # declaration id -> int: helper parameters bound to a constant at the followed call site
        self.this_alias = set()   # parameters / reference members of followed helper objects that designate the analysed *this
        # "locked handle" idiom (see rules/C12.py recognise_handles): accessor function id -> dict(mutex, target, held, ctor);
        # ids of the handle classes' operator-> / operator*; raw pointers obtained from a handle / &member: var id -> field
        self.handles = {}
        self.handle_ops = set()
        self.ptr_alias = {}
        self.field_map = {}       # (nested record, member) -> canonical (record, member) it stands for
        self.ref_alias = {}       # reference parameter of a followed helper -> the argument expression it is bound to

    # ------------------------------------------------------------------ packed flags
    def int_value(self, e, binds=None):
        """constant integer value of a mask expression (constants, enumerators, bound helper parameters, | & ~), else None"""
        tu = self.tu
        e = tu.strip(e, casts=True) if e is not None else None
        if e is None:
            return None
        k = e.get('kind')
        if k == 'DeclRefExpr':
            did = e.get('referencedDecl', {}).get('id')
            if binds is not None and did in binds:
                return binds[did]
            if did in self.consts:
                return self.consts[did]
        cv = tu.sd(e).get('cv')
        if cv is not None and k not in CALLS:
            try:
                return int(cv)
            except ValueError:
                return None
        if k == 'BinaryOperator' and e.get('opcode') in ('|', '&', '^'):
            a, b = (self.int_value(x, binds) for x in tu.kids(e))
            if a is None or b is None:
                return None
            return a | b if e['opcode'] == '|' else a & b if e['opcode'] == '&' else a ^ b
        if k == 'UnaryOperator' and e.get('opcode') == '~':
            a = self.int_value(tu.kids(e)[0], binds)
            return None if a is None else (~a) & 0xFFFFFFFFFFFFFFFF
        return None

    def word_load(self, e):
        """(word field) if e is an atomic load of a packed-flag word"""
        x = self.tu.strip(e, casts=True) if e is not None else None
        a = self.atomic_op(x) if x is not None else None
        if a is not None and a['op'] == 'load' and a['field'] in self.bitwords:
            return a['field'], a['order']
        # a const local that holds one load of the word (`const unsigned f = flags.load();`)
        if x is not None and x.get('kind') == 'DeclRefExpr':
            d = self.tu.node(x.get('referencedDecl', {}).get('id'))
            if d is not None and d.get('kind') == 'VarDecl' and 'const' in (d.get('type', {}).get('qualType') or '') and self.tu.kids(d):
                a = self.atomic_op(self.tu.strip(self.tu.kids(d)[-1], casts=True))
                if a is not None and a['op'] == 'load' and a['field'] in self.bitwords:
                    return a['field'], a['order']
        return None

    def roles_of(self, word, mask):
        return [fld for bit, fld in sorted(self.bitwords[word].items()) if mask & bit]

    def masked_load(self, n, binds=None):
        """(flag field | None, order, word) if n is `<load of a packed word> & <mask>`; field None = not exactly one flag"""
        tu = self.tu
        if n is None or n.get('kind') != 'BinaryOperator' or n.get('opcode') != '&' or not self.bitwords:
            return None
        a, b = tu.kids(n)
        for x, y in ((a, b), (b, a)):
            wl = self.word_load(x)
            if wl is None:
                continue
            m = self.int_value(y, binds)
            roles = self.roles_of(wl[0], m) if m is not None else []
            return (roles[0] if len(roles) == 1 else None, wl[1], wl[0])
        return None

    def word_write(self, n, binds=None):
        """decode a write to a packed-flag word: dict(word, sets=[(flag, value)], order, lms=bool, unknown=bool) or None"""
        tu = self.tu
        a = self.atomic_op(n)
        if a is None or a['field'] not in self.bitwords or a['op'] == 'load':
            return None
        word = a['field']
        s, obj, args = tu.call_parts(n)
        name = a['name']
        allbits = 0
        for bit in self.bitwords[word]:
            allbits |= bit
        out = {'word': word, 'sets': [], 'order': a.get('order', SEQ_CST), 'lms': False, 'unknown': False, 'name': name}
        if name in ('fetch_or', 'operator|='):
            m = self.int_value(args[0], binds) if args else None
            if m is None:
                out['unknown'] = True
            else:
                out['sets'] = [(f, True) for f in self.roles_of(word, m)]
            return out
        if name in ('fetch_and', 'operator&='):
            m = self.int_value(args[0], binds) if args else None
            if m is None:
                out['unknown'] = True
            else:
                out['sets'] = [(f, False) for f in self.roles_of(word, allbits & ~m)]
            return out
        if name in ('store', 'operator='):
            v = tu.strip(args[0], casts=True) if args else None
            if v is not None and v.get('kind') == 'BinaryOperator' and v.get('opcode') in ('|', '&'):
                x, y = tu.kids(v)
                for ld, mk in ((x, y), (y, x)):
                    wl = self.word_load(ld)
                    if wl is not None and wl[0] == word:
                        m = self.int_value(mk, binds)
                        out['lms'] = True           # value computed from an earlier, separate load of the same word
                        if m is None:
                            out['unknown'] = True
                        elif v['opcode'] == '|':
                            out['sets'] = [(f, True) for f in self.roles_of(word, m)]
                        else:
                            out['sets'] = [(f, False) for f in self.roles_of(word, allbits & ~m)]
                        return out
            out['unknown'] = True                   # whole-word store
            return out
        out['unknown'] = True                       # exchange / compare_exchange / arithmetic on the word
        return out

    def flag_test(self, e, flags, binds=None, depth=0):
        """(flag field, polarity) if the boolean expression e is a test of exactly one flag: an atomic<bool> load, a masked load
        of a packed word, or a call of a helper whose body is a single return of such a test (mask parameters bound to the
        constants of the call).  `flags`: the canonical flag fields of interest."""
        tu = self.tu
        if e is None or depth > 6:
            return None
        pol, atom = self.cond_atom(e)
        if atom is None:
            return None
        a = self.atomic_op(atom)
        if a is not None and a['op'] == 'load' and a['field'] in flags:
            return a['field'], pol
        ml = self.masked_load(atom, binds)
        if ml is not None:
            return (ml[0], pol) if ml[0] is not None else None
        if atom.get('kind') in CALLS:
            cf = tu.callee_fn(atom)
            body = tu.body(cf) if cf is not None and not cf.get('dep') else None
            if body is None:
                return None
            stmts = tu.kids(body)
            if len(stmts) != 1 or stmts[0].get('kind') != 'ReturnStmt' or not tu.kids(stmts[0]):
                return None
            ks = tu.kids(atom)[1:]
            if atom.get('kind') == 'CXXOperatorCallExpr' and len(ks) == len(cf.get('params', [])) + 1:
                ks = ks[1:]
            b2 = dict(binds or {})
            for p_, a_ in zip(cf.get('params', []), ks):
                v = self.int_value(a_, binds)
                if v is not None:
                    b2[p_['id']] = v
            r = self.flag_test(tu.kids(stmts[0])[0], flags, b2, depth + 1)
            return None if r is None else (r[0], r[1] if pol else (not r[1]))
        return None

    def expand(self, e):
        """CFG element -> list of elements; a write to a packed word that sets/clears several flags becomes one synthetic
        element per flag (['EV', event]); everything else is returned unchanged"""
        if e[0] != 'S' or not self.bitwords:
            return [e]
        n = self.tu.node(e[1])
        if n is None or n.get('kind') not in ('CXXMemberCallExpr', 'CXXOperatorCallExpr'):
            return [e]
        w = self.word_write(n)
        if w is None or w['unknown'] or len(w['sets']) <= 1:
            return [e]
        return [['EV', ('store', f, v, w['order'], n)] for f, v in w['sets']]

    # ------------------------------------------------------------------ expressions
    def field(self, e):
        """(record, member name) if `e` designates a non-static data member, else None"""
        tu = self.tu
        e = tu.strip(e, casts=True)
        e = self.deref_alias(e)
        if e is not None and (self.handles or self.ptr_alias) and e.get('kind') != 'MemberExpr':
            t = self.handle_target(e)
            if t is not None:
                return t
        if e is None or e.get('kind') != 'MemberExpr':
            return None
        s = tu.sd(e)
        if s.get('k') != 'member' or 'fi' not in s:
            return None
        key = (s.get('rec'), e.get('name'))
        return self.field_map.get(key, key)     # members of a nested state class stand for the canonical members

    def handle_call(self, e, depth=0):
        """(call node, info) if e is a call of a recognised locked-handle accessor on *this (possibly wrapped in the temporaries /
        the move construction that initialise a local from it), else None"""
        tu = self.tu
        e = tu.strip(e, casts=True) if e is not None else None
        if e is None or depth > 3 or not self.handles:
            return None
        if e.get('kind') in ('CXXConstructExpr', 'CXXTemporaryObjectExpr') and len(tu.kids(e)) == 1:
            return self.handle_call(tu.kids(e)[0], depth + 1)
        if e.get('kind') == 'CXXMemberCallExpr':
            cf = tu.callee_fn(e)
            if cf is not None and cf['id'] in self.handles:
                me = tu.strip(tu.kids(e)[0]) if tu.kids(e) else None
                if me is not None and me.get('kind') == 'MemberExpr' and (not tu.kids(me) or tu.is_this(tu.kids(me)[0])):
                    return e, self.handles[cf['id']]
        return None

    def handle_lock_holder(self, obj):
        """`h.lock` for a named local handle h (initialised from a locked-handle accessor): the id of h, which is the lock holder"""
        tu = self.tu
        obj = tu.strip(obj, casts=True)
        if obj is None or obj.get('kind') != 'MemberExpr' or not tu.kids(obj):
            return None
        fld = self.field(obj)
        if fld is None or (fld[0], fld[1]) not in {(i['rec'], i['lockmem']) for i in self.handles.values()}:
            return None
        b = tu.strip(tu.kids(obj)[0], casts=True)
        if b is None or b.get('kind') != 'DeclRefExpr':
            return None
        d = tu.node(b.get('referencedDecl', {}).get('id'))
        if d is not None and d.get('kind') == 'VarDecl' and tu.kids(d) and self.handle_call(tu.kids(d)[-1]) is not None:
            return d['id']
        return None

    def handle_var_calls(self):
        """ids of the accessor calls whose result initialises a named local handle (the local then is the lock holder)"""
        if getattr(self, '_hvc', None) is None or self._hvc[0] != len(self.handles):
            tu, out = self.tu, set()
            for f in tu.functions.values():
                if f['dep'] or tu.body(f) is None:
                    continue
                for x in tu.walk(tu.body(f)):
                    if x.get('kind') == 'VarDecl' and tu.kids(x):
                        hc = self.handle_call(tu.kids(x)[-1])
                        if hc is not None:
                            out.add(hc[0]['id'])
            self._hvc = (len(self.handles), out)
        return self._hvc[1]

    def handle_target(self, e):
        """guarded field designated by `<handle>->` / `*<handle>` (handle = accessor call or a local initialised from one), by
        `*p` / `p` for a raw pointer p obtained from such an expression, else None"""
        tu = self.tu
        e = tu.strip(e, casts=True) if e is not None else None
        if e is None:
            return None
        k = e.get('kind')
        if k == 'DeclRefExpr':
            return self.ptr_alias.get(e.get('referencedDecl', {}).get('id'))
        if k == 'UnaryOperator' and e.get('opcode') == '*':
            x = tu.strip(tu.kids(e)[0], casts=True)
            if x is not None and x.get('kind') == 'DeclRefExpr':
                return self.ptr_alias.get(x.get('referencedDecl', {}).get('id'))
            return None
        if k == 'CXXOperatorCallExpr':
            cf = tu.callee_fn(e)
            ks = tu.kids(e)
            if cf is None or cf['id'] not in self.handle_ops or len(ks) < 2:
                return None
            obj = tu.strip(ks[1], casts=True)
            hc = self.handle_call(obj)
            if hc is None and obj is not None and obj.get('kind') == 'DeclRefExpr':
                d = tu.node(obj.get('referencedDecl', {}).get('id'))
                if d is not None and d.get('kind') == 'VarDecl' and tu.kids(d):
                    hc = self.handle_call(tu.kids(d)[-1])
            return hc[1]['target'] if hc is not None else None
        return None

    def deref_alias(self, e, depth=0):
        """a reference parameter of a followed helper stands for the expression it was bound to at the call"""
        while e is not None and depth < 4 and e.get('kind') == 'DeclRefExpr' and \
                e.get('referencedDecl', {}).get('id') in self.ref_alias:
            e = self.unwrap_move(self.ref_alias[e['referencedDecl']['id']])
            depth += 1
        return e

    def field_type(self, e):
        e = self.tu.strip(e, casts=True)
        return self.tu.sd(e).get('ct', '') if e is not None else ''

    def base_is_this(self, e):
        """True if the member expression `e` is `this->f` / `f` / `(*this).f`"""
        tu = self.tu
        e = tu.strip(e, casts=True)
        e = self.deref_alias(e)
        if e is not None and (self.handles or self.ptr_alias) and e.get('kind') != 'MemberExpr' and self.handle_target(e) is not None:
            return True             # reached through a handle / pointer that this object handed out for its own member
        if e is None or e.get('kind') != 'MemberExpr':
            return False
        ks = tu.kids(e)
        if not ks:
            return True
        b = tu.strip(ks[0], casts=True)
        while b is not None and b.get('kind') == 'UnaryOperator' and b.get('opcode') in ('*', '&'):
            b = tu.strip(tu.kids(b)[0], casts=True)
        if b is not None and b.get('kind') == 'CXXThisExpr':
            return True
        return self.designates_this(b)

    def designates_this(self, b):
        """is b a reference (parameter / reference member of a followed helper object) known to be bound to the analysed *this?"""
        if b is None or not self.this_alias:
            return False
        b = self.tu.strip(b, casts=True)
        if b is None:
            return False
        if b.get('kind') == 'DeclRefExpr':
            return b.get('referencedDecl', {}).get('id') in self.this_alias
        if b.get('kind') == 'MemberExpr':
            return self.tu.sd(b).get('d') in self.this_alias
        return False

    def is_star_this(self, e):
        """`*this` (of the function being explored), or something already known to designate the analysed object"""
        tu = self.tu
        e = tu.strip(e, casts=True) if e is not None else None
        if e is None:
            return False
        if e.get('kind') == 'UnaryOperator' and e.get('opcode') == '*':
            x = tu.strip(tu.kids(e)[0], casts=True)
            return x is not None and x.get('kind') == 'CXXThisExpr'
        return self.designates_this(e)

    def const_bool(self, e):
        tu = self.tu
        e = tu.strip(e, casts=True)
        if e is None:
            return None
        if e.get('kind') == 'CXXBoolLiteralExpr':
            return bool(e.get('value'))
        if e.get('kind') in CALLS:
            return None
        if e.get('kind') == 'DeclRefExpr' and e.get('referencedDecl', {}).get('id') in self.consts:
            return self.consts[e['referencedDecl']['id']] != 0     # helper parameter bound to a constant at the followed call
        cv = tu.sd(e).get('cv')
        if cv is not None:
            try:
                return int(cv) != 0
            except ValueError:
                return None
        return None

    def order(self, e):
        """memory order named by an argument expression (default argument = seq_cst); None if not a constant"""
        tu = self.tu
        if e is None:
            return SEQ_CST
        e = tu.strip(e, casts=True)
        if e is None or e.get('kind') == 'CXXDefaultArgExpr':
            return SEQ_CST
        cv = tu.sd(e).get('cv')
        if cv is None:
            return None
        try:
            return int(cv)
        except ValueError:
            return None

    def local_var(self, e):
        """decl id if `e` is a reference to a local variable / parameter"""
        tu = self.tu
        e = tu.strip(e, casts=True)
        if e is not None and e.get('kind') == 'DeclRefExpr':
            rd = e.get('referencedDecl', {})
            if rd.get('kind') in ('VarDecl', 'ParmVarDecl'):
                return rd.get('id')
        return None

    def unwrap_move(self, e):
        """strip std::move / std::forward / static_cast<T&&> around an expression"""
        tu = self.tu
        while True:
            e = tu.strip(e, casts=True)
            if e is not None and e.get('kind') == 'CallExpr' and tu.sd(e).get('q') in ('std::move', 'std::forward'):
                ks = tu.kids(e)
                if len(ks) == 2:
                    e = ks[1]
                    continue
            return e

    def mentions_field(self, e, fld, depth=0):
        for x in self.tu.walk(e):
            if x.get('kind') == 'MemberExpr' and self.field(x) == fld:
                return True
            if x.get('kind') == 'DeclRefExpr' and depth < 4 and x.get('referencedDecl', {}).get('id') in self.ref_alias and \
                    self.mentions_field(self.ref_alias[x['referencedDecl']['id']], fld, depth + 1):
                return True
        return False

    def mentions_var(self, e, var_id):
        return any(x.get('kind') == 'DeclRefExpr' and x.get('referencedDecl', {}).get('id') == var_id
                   for x in self.tu.walk(e))

    # ------------------------------------------------------------------ atomics
    def atomic_op(self, n):
        """dict(op, field, obj, value, order, name) for a call on a std::atomic data member, else None"""
        tu = self.tu
        if n is None or n.get('kind') not in ('CXXMemberCallExpr', 'CXXOperatorCallExpr'):
            return None
        s, obj, args = tu.call_parts(n)
        if s.get('rec') not in ATOMIC_RECS or obj is None:
            return None
        fld = self.field(obj)
        name = last(s.get('q'))
        out = {'field': fld, 'obj': obj, 'name': name, 'value': None, 'order': SEQ_CST, 'node': n}
        if name == 'operator=':
            out['op'] = 'store'
            out['value'] = self.const_bool(args[0]) if args else None
        elif name == 'store':
            out['op'] = 'store'
            out['value'] = self.const_bool(args[0]) if args else None
            out['order'] = self.order(args[1]) if len(args) > 1 else SEQ_CST
        elif name == 'load':
            out['op'] = 'load'
            out['order'] = self.order(args[0]) if args else SEQ_CST
        elif name.startswith('operator ') or name in ('operator bool', 'operator _Bool'):
            out['op'] = 'load'
        elif name == 'clear' and s.get('rec') == 'std::atomic_flag':
            out['op'] = 'store'
            out['value'] = False
            out['order'] = self.order(args[0]) if args else SEQ_CST
        elif name in ('exchange', 'compare_exchange_weak', 'compare_exchange_strong', 'fetch_add', 'fetch_sub',
                      'fetch_and', 'fetch_or', 'fetch_xor', 'operator++', 'operator--', 'operator+=', 'operator-=',
                      'operator&=', 'operator|=', 'operator^=', 'test_and_set', 'clear'):
            out['op'] = 'rmw'
            # memory order of the (successful) read-modify-write: the argument after the operand(s); operators are seq_cst
            pos = {'exchange': 1, 'fetch_add': 1, 'fetch_sub': 1, 'fetch_and': 1, 'fetch_or': 1, 'fetch_xor': 1,
                   'compare_exchange_weak': 2, 'compare_exchange_strong': 2, 'test_and_set': 0}.get(name)
            if pos is not None and len(args) > pos:
                out['order'] = self.order(args[pos])
            if name == 'exchange' and args:
                out['value'] = self.const_bool(args[0])
        else:
            out['op'] = 'other'
        return out

    # ------------------------------------------------------------------ writes to plain members
    def plain_write(self, n):
        """(field, lhs_expr, rhs_expr) for `member = rhs` (built-in or class-type operator=), else None"""
        tu = self.tu
        k = n.get('kind')
        if k == 'BinaryOperator' and n.get('opcode') == '=':
            ks = tu.kids(n)
            fld = self.field(ks[0])
            if fld is not None:
                return fld, ks[0], ks[1]
            return None
        if k == 'CXXOperatorCallExpr':
            s, obj, args = tu.call_parts(n)
            if last(s.get('q')) == 'operator=' and obj is not None and s.get('rec') not in ATOMIC_RECS and args:
                fld = self.field(obj)
                if fld is not None:
                    return fld, obj, args[0]
        return None

    # ------------------------------------------------------------------ branch conditions
    def cond_atom(self, e):
        """(polarity, atom): removes `!`, `== true/false`, `!= true/false`, casts and parentheses"""
        tu = self.tu
        pol = True
        for _ in range(12):
            e = tu.strip(e, casts=True)
            if e is None:
                return pol, None
            k = e.get('kind')
            if k == 'UnaryOperator' and e.get('opcode') == '!':
                pol = not pol
                e = tu.kids(e)[0]
                continue
            if k == 'BinaryOperator' and e.get('opcode') in ('&&', '||'):
                # terminator of the block that evaluates the *last* operand: the left operand was decided by an earlier
                # block (short circuit), so on reaching this block the value of the whole expression is the right operand
                e = tu.kids(e)[1]
                continue
            if k == 'BinaryOperator' and e.get('opcode') in ('==', '!='):
                a, b = tu.kids(e)
                done = False
                for x, y in ((a, b), (b, a)):
                    y0 = tu.strip(y, casts=True)
                    if y0 is not None and (y0.get('kind') == 'CXXBoolLiteralExpr' or
                                           (y0.get('kind') == 'IntegerLiteral' and str(y0.get('value')) == '0')):
                        v = bool(y0.get('value')) if y0.get('kind') == 'CXXBoolLiteralExpr' else False
                        if (e['opcode'] == '==') != v:
                            pol = not pol
                        e = x
                        done = True
                        break
                if done:
                    continue
            return pol, e
        return pol, e

    def edge_truth(self, blk, si):
        """(atom, truth of the atom on edge `si` of block `blk`) or (None, None)"""
        if blk.cond is None or len(blk.succ) != 2:
            return None, None
        c = self.tu.node(blk.cond)
        if c is None:
            return None, None
        pol, atom = self.cond_atom(c)
        if atom is None:
            return None, None
        return atom, (pol if si == 0 else (not pol))

    # ------------------------------------------------------------------ one CFG element -> one event
    def mutex_expr(self, e, depth=0):
        """the member expression a lock argument designates: the member itself, `*member` / `*member.get()` for a mutex held
        through a (smart) pointer, or the call of an accessor whose every return is such an expression; else None"""
        tu = self.tu
        e = tu.strip(e, casts=True) if e is not None else None
        if e is None or depth > 4:
            return None
        k = e.get('kind')
        if k == 'MemberExpr' and 'fi' in tu.sd(e):
            return e
        if k == 'UnaryOperator' and e.get('opcode') == '*':
            return self.mutex_expr(tu.kids(e)[0], depth + 1)
        if k == 'CXXOperatorCallExpr' and last(tu.sd(e).get('q')) in ('operator*', 'operator->'):
            ks = tu.kids(e)
            return self.mutex_expr(ks[1], depth + 1) if len(ks) > 1 else None
        if k == 'CXXMemberCallExpr':
            s_, obj, _a = tu.call_parts(e)
            if last(s_.get('q')) == 'get' and (s_.get('rec') or '').startswith(('std::unique_ptr', 'std::shared_ptr', 'std::__shared_ptr')):
                return self.mutex_expr(obj, depth + 1)
            cf = tu.callee_fn(e)
            body = tu.body(cf) if cf is not None and not cf.get('dep') else None
            me = tu.strip(tu.kids(e)[0]) if tu.kids(e) else None
            base_this = me is not None and me.get('kind') == 'MemberExpr' and (not tu.kids(me) or tu.is_this(tu.kids(me)[0]))
            if body is not None and base_this:
                rets = [x for x in tu.walk(body) if x.get('kind') == 'ReturnStmt' and tu.kids(x)]
                ms = [self.mutex_expr(tu.kids(x)[0], depth + 1) for x in rets]
                if ms and all(m is not None for m in ms) and len({self.field(m) for m in ms}) == 1:
                    return ms[0]
        return None

    def lock_decl(self, declstmt):
        """[(var_id, mutex_field|None, held|None, var_node)] for lock variables declared by a DeclStmt;
        held None = form not modelled (adopt_lock / try_to_lock / several mutexes)"""
        tu = self.tu
        out = []
        for v in tu.kids(declstmt):
            if v.get('kind') != 'VarDecl':
                continue
            ks = tu.kids(v)
            if not ks:
                continue
            ce = tu.strip(ks[-1])
            hc = self.handle_call(ks[-1]) if self.handles else None
            if hc is not None:
                # a local that takes over the handle (and with it the lock) returned by a locked-handle accessor
                out.append((v['id'], hc[1]['mutex'], hc[1]['held'], {'kind': 'VarDecl', 'id': v['id'], 'inner': [hc[1]['ctor']]}))
                continue
            if ce is None or ce.get('kind') not in ('CXXConstructExpr', 'CXXTemporaryObjectExpr'):
                continue
            s = tu.sd(ce)
            if s.get('rec') not in LOCK_RECS:
                continue
            args = [a for a in tu.kids(ce) if tu.strip(a) is not None and tu.strip(a).get('kind') != 'CXXDefaultArgExpr']
            if not args:
                out.append((v['id'], None, False, v))      # default-constructed unique_lock: owns nothing
                continue
            mx = self.mutex_expr(args[0])
            m = self.field(mx) if mx is not None else None
            held = True
            if len(args) == 2:
                tag = tu.sd(tu.strip(args[1], casts=True)).get('ct', '') or ''
                if 'defer_lock_t' in tag:
                    held = False
                elif 'try_to_lock_t' in tag:
                    held = 'try'        # owned or not: decided where the code branches on owns_lock() / operator bool
                else:
                    held = None
            elif len(args) > 2:
                held = None
            if m is None:
                held = None
            out.append((v['id'], m, held, v))
        return out

    def event(self, e):
        tu = self.tu
        if e[0] == 'AD':
            return ('unlock-scope', e[1])
        if e[0] == 'EV':
            return e[1]
        if e[0] == 'I':
            # constructor initialiser of a followed helper object: a lock member initialised with a mutex opens a lock scope that
            # lasts until the member is destroyed ('MD'); a reference member bound to the analysed object designates it
            init = tu.strip(tu.node(e[1])) if tu.node(e[1]) is not None else None
            if init is not None and init.get('kind') in ('CXXConstructExpr', 'CXXTemporaryObjectExpr') and \
                    tu.sd(init).get('rec') in LOCK_RECS:
                ls = self.lock_decl({'kind': 'DeclStmt', 'inner': [{'kind': 'VarDecl', 'id': ('mem', e[2]), 'inner': [init]}]})
                if ls:
                    return ('locks', ls, init)
            if init is not None and self.designates_this(init) and e[2]:
                self.this_alias.add(e[2])
            return None
        if e[0] == 'MD':
            return ('unlock-scope', ('mem', e[1]))
        if e[0] == 'TD' and self.handles:
            bt = tu.node(e[1])
            hc = self.handle_call(bt) if bt is not None else None
            if hc is not None and hc[0]['id'] not in self.handle_var_calls():
                return ('unlock-scope', ('tmp', hc[0]['id']))       # the temporary handle dies at the end of the full expression
            return None
        if e[0] != 'S':
            return None
        n = tu.node(e[1])
        if n is None:
            return None
        k = n.get('kind')
        if self.handles and k == 'CXXMemberCallExpr':
            hc = self.handle_call(n)
            if hc is not None and hc[0] is n and n['id'] in self.handle_var_calls():
                return None                     # the returned handle is (moved into) a named local: see lock_decl
            if hc is not None and hc[0] is n:
                info = hc[1]
                return ('locks', [(('tmp', n['id']), info['mutex'], info['held'],
                                   {'kind': 'VarDecl', 'id': ('tmp', n['id']), 'inner': [info['ctor']]})], n)
        if self.bitwords:
            ml = self.masked_load(n)
            if ml is not None:
                if ml[0] is None:
                    return ('rmw', sorted(self.bitwords[ml[2]].values())[0], 'test of several / unknown bits of the flag word', n)
                return ('load', ml[0], ml[1], n)
            if k in ('CXXMemberCallExpr', 'CXXOperatorCallExpr'):
                if self.word_load(n) is not None:
                    return None                 # the whole-word load is decoded at its `& mask`
                w = self.word_write(n)
                if w is not None:
                    if w['unknown'] or len(w['sets']) > 1:
                        return ('rmw', sorted(self.bitwords[w['word']].values())[0], '%s of the whole flag word' % w['name'], n)
                    if not w['sets']:
                        return None             # touches no flag bit
                    return ('store', w['sets'][0][0], w['sets'][0][1], w['order'], n)
        if k == 'DeclStmt':
            ls = self.lock_decl(n)
            if ls:
                return ('locks', ls, n)
            return None
        if k in ('CXXMemberCallExpr', 'CXXOperatorCallExpr'):
            a = self.atomic_op(n)
            if a is not None:
                if a['op'] == 'store':
                    return ('store', a['field'], a['value'], a['order'], n)
                if a['op'] == 'load':
                    return ('load', a['field'], a['order'], n)
                return ('rmw', a['field'], a['name'], n)
            s, obj, args = tu.call_parts(n)
            rec, name = s.get('rec'), last(s.get('q'))
            if rec in ('std::unique_lock', 'std::lock_guard', 'std::scoped_lock') and obj is not None:
                v = self.local_var(obj)
                if v is None and self.handles:
                    v = self.handle_lock_holder(obj)
                    if v is None:
                        return ('lk-other', None, name, n)
                if name == 'unlock':
                    return ('lk-unlock', v, n)
                if name == 'lock':
                    return ('lk-lock', v, n)
                if name in ('owns_lock', 'operator bool', 'mutex'):
                    return None
                return ('lk-other', v, name, n)
            if rec in ('std::mutex', 'std::recursive_mutex', 'std::timed_mutex') and obj is not None:
                m = self.field(obj)
                if name == 'lock':
                    return ('m-lock', m, n)
                if name == 'unlock':
                    return ('m-unlock', m, n)
                return ('m-other', m, name, n)
            if rec in ('std::condition_variable', 'std::condition_variable_any') and obj is not None:
                cv = self.field(obj)
                if name in ('notify_one', 'notify_all'):
                    return ('notify', cv, n)
                if name in ('wait', 'wait_for', 'wait_until'):
                    lv = self.local_var(args[0]) if args else None
                    rest = args[1:]
                    if name != 'wait' and rest:
                        rest = rest[1:]           # duration / time point
                    pred = rest[0] if rest else None
                    return ('wait', cv, lv, pred, name, n)
                return ('cv-other', cv, name, n)
            w = self.plain_write(n)
            if w is not None:
                return ('store', w[0], self.const_bool(w[2]), SEQ_CST, n)
            return ('call', s.get('q', ''), n)
        if k == 'CallExpr':
            return ('call', tu.sd(n).get('q', ''), n)
        if k == 'BinaryOperator' and n.get('opcode') == '=':
            w = self.plain_write(n)
            if w is not None:
                return ('store', w[0], self.const_bool(w[2]), SEQ_CST, n)
        if (k == 'UnaryOperator' and n.get('opcode') in ('++', '--')) or k == 'CompoundAssignOperator':
            fld = self.field(tu.kids(n)[0]) if tu.kids(n) else None
            if fld is not None and not is_atomic_type(self.field_type(tu.kids(n)[0])):
                return ('store', fld, None, SEQ_CST, n)        # ++member / member += x on a plain data member
        return None


class LockState:
    """helpers on the lock component of an exploration state: frozenset of (holder, mutex_field)
    where holder is a lock variable's decl id or 'direct'"""

    @staticmethod
    def apply(locks, known, ev):
        """new (locks, known) after event `ev`; `known` maps lock var id -> mutex field (frozenset of pairs).
        Returns (locks, known, problem|None)"""
        kind = ev[0]
        if kind == 'locks':
            prob = None
            for var, m, held, _v in ev[1]:
                known = frozenset(set(known) | {(var, m)})
                if held is None:
                    prob = 'lock variable constructed in a form that is not modelled (adopt_lock / not a data member)'
                elif held == 'try':
                    known = frozenset(set(known) | {(('try', var), m)})      # not counted as held until a branch says so
                elif held:
                    locks = frozenset(set(locks) | {(var, m)})
            return locks, known, prob
        if kind == 'unlock-scope':
            return frozenset(p for p in locks if p[0] != ev[1]), known, None
        if kind == 'lk-unlock':
            return frozenset(p for p in locks if p[0] != ev[1]), known, None
        if kind == 'lk-lock':
            m = dict(known).get(ev[1])
            if m is None:
                return locks, known, 'lock() on a lock object whose mutex is not known'
            return frozenset(set(locks) | {(ev[1], m)}), known, None
        if kind == 'm-lock':
            return frozenset(set(locks) | {('direct', ev[1])}), known, None
        if kind == 'm-unlock':
            return frozenset(p for p in locks if p != ('direct', ev[1])), known, None
        if kind in ('lk-other', 'm-other'):
            return locks, known, 'operation %s on a lock/mutex is not modelled' % ev[2]
        return locks, known, None

    @staticmethod
    def refine_try(sy, blk, si, locks, known):
        """branch on `lk.owns_lock()` / `if (lk)` of a try_to_lock variable: on the true edge the mutex is held"""
        atom, truth = sy.edge_truth(blk, si)
        if atom is None or atom.get('kind') != 'CXXMemberCallExpr':
            return locks, known
        s, obj, _a = sy.tu.call_parts(atom)
        if s.get('rec') != 'std::unique_lock' or last(s.get('q')) not in ('owns_lock', 'operator bool') or obj is None:
            return locks, known
        v = sy.local_var(obj)
        m = dict(known).get(('try', v))
        if m is None:
            return locks, known
        known = frozenset(p for p in known if p[0] != ('try', v))
        if truth:
            locks = frozenset(set(locks) | {(v, m)})
        return locks, known

    @staticmethod
    def holds(locks, mutex_field):
        return any(p[1] == mutex_field for p in locks)

    @staticmethod
    def holder_of(locks, var):
        for p in locks:
            if p[0] == var:
                return p[1]
        return None


class Hooks:
    """default call hooks of Inliner (rules override what they need)"""

    def pre_call(self, n, cf, args, st):
        return [st]

    def post_call(self, n, cf, st, rv):
        return [st]

    def ret_value(self, e, st):
        return None

    def memo_extra(self, n, cf, args):
        """what, besides the entry state, a callee summary depends on (e.g. constants bound to its parameters)"""
        return None

    def problem(self, msg, n):
        pass


class Inliner:
    """CFG.explore with calls to `own` functions followed: the callee's CFG is explored from the state at the call site
    (lock state, automaton state and event sequence carried through) and exploration continues behind the call with each
    of the callee's exit states.  Summaries are memoised per (callee, entry state)."""

    def __init__(self, tu, is_own, max_depth=8):
        self.tu = tu
        self.is_own = is_own
        self.max_depth = max_depth
        self.stack = []
        self.at = None          # (block id, engine state) at the start of the current block of the top-level function
        self.memo = {}
        self.expand = None      # optional: CFG element -> list of elements (see Sync.expand)

    @property
    def depth(self):
        return len(self.stack) - 1

    def chain(self):
        return ['in %s (%s)' % (f['q'], self.tu.fn_loc(f)) for f in self.stack[1:]]

    def callee(self, n):
        """function entry if the call node `n` is followed"""
        tu = self.tu
        if n is None or n.get('kind') not in CALLS + ('CXXConstructExpr', 'CXXTemporaryObjectExpr'):
            return None
        cf = tu.callee_fn(n)
        if cf is None or cf.get('dep') or tu.cfg(cf) is None or cf['id'] in getattr(self, 'skip', ()):
            return None
        return cf if self.is_own(cf) else None

    def member_type(self, field_id):
        if not hasattr(self, '_ftypes'):
            self._ftypes = {}
            for r in self.tu.records.values():
                for f in r.get('fields', []) or []:
                    self._ftypes[f['id']] = f.get('ct')
        return self._ftypes.get(field_id)

    def dtor_of(self, type_name):
        if not hasattr(self, '_dtors'):
            self._dtors = {}
            for f in self.tu.functions.values():
                if f.get('dtor') and not f.get('dep') and self.tu.cfg(f) is not None and f.get('rect'):
                    self._dtors[f['rect']] = f
        f = self._dtors.get((type_name or '').replace('const ', '').strip())
        return f if f is not None and self.is_own(f) and f['id'] not in getattr(self, 'skip', ()) else None

    def args(self, n, cf):
        ks = self.tu.kids(n)
        if n.get('kind') in ('CXXConstructExpr', 'CXXTemporaryObjectExpr'):
            return ks
        a = ks[1:]
        if n.get('kind') == 'CXXOperatorCallExpr' and len(a) == len(cf.get('params', [])) + 1:
            a = a[1:]           # the object expression of a member operator (e.g. a closure's operator())
        return a

    def reachable_fns(self, f):
        """f and every own function reachable from it through followed calls"""
        tu = self.tu
        seen, todo = {f['id']: f}, [f]
        while todo:
            x = todo.pop()
            g = tu.cfg(x)
            if g is None:
                continue
            for _b, _i, n in g.stmts():
                cf = self.callee(n)
                if cf is not None and cf['id'] not in seen:
                    seen[cf['id']] = cf
                    todo.append(cf)
        return list(seen.values())

    def explore(self, f, inits, transfer, refine=None, hooks=None):
        """returns (exploration of f's own CFG over engine states (rule_state, retval), [(rule_state, retval, via_block)])"""
        hooks = hooks or Hooks()
        self.memo = {}
        self.stack = []
        res, outs = self._run(f, list(inits), transfer, refine, hooks)
        return res, outs

    def _run(self, f, inits, transfer, refine, hooks):
        tu = self.tu
        g = tu.cfg(f)
        self.stack.append(f)
        top = len(self.stack) == 1

        def tr(blk, i, e, st):
            rs, rv = st
            if top and i == 0:
                self.at = (blk.id, st)
            n = tu.node(e[1]) if e[0] == 'S' else None
            cf = self.callee(n)
            if e[0] in ('AD', 'MD'):
                # end of the lifetime of a local object / of a member (in a destructor) of an own class: its destructor runs here
                df = self.dtor_of(e[3] if e[0] == 'AD' else self.member_type(e[1]))
                if df is not None and not any(x['id'] == df['id'] for x in self.stack) and len(self.stack) < self.max_depth:
                    outs = []
                    for rs1 in hooks.pre_call(None, df, [], rs):
                        key = (df['id'], rs1, None)
                        if key not in self.memo:
                            self.memo[key] = self._run(df, [rs1], transfer, refine, hooks)[1]
                        for (rs2, _rv2, _via) in self.memo[key]:
                            for r in transfer(blk, i, e, rs2):
                                if (r, rv) not in outs:
                                    outs.append((r, rv))
                    return outs
            if cf is not None:
                if any(x['id'] == cf['id'] for x in self.stack) or len(self.stack) >= self.max_depth:
                    hooks.problem('recursive or too deep helper call chain through %s' % cf['q'], n)
                    return [st]
                outs = []
                extra = hooks.memo_extra(n, cf, self.args(n, cf))
                for rs1 in hooks.pre_call(n, cf, self.args(n, cf), rs):
                    key = (cf['id'], rs1, extra)
                    if key not in self.memo:
                        self.memo[key] = self._run(cf, [rs1], transfer, refine, hooks)[1]
                    for (rs2, rv2, _via) in self.memo[key]:
                        for rs3 in hooks.post_call(n, cf, rs2, rv2):
                            if (rs3, rv) not in outs:
                                outs.append((rs3, rv))
                return outs
            if n is not None and n.get('kind') == 'ReturnStmt':
                ks = tu.kids(n)
                rv = hooks.ret_value(ks[0], rs) if ks else None
            parts = self.expand(e) if self.expand is not None else [e]
            states = [rs]
            for pe in parts:
                nxt = []
                for s0 in states:
                    for r in transfer(blk, i, pe, s0):
                        if r not in nxt:
                            nxt.append(r)
                states = nxt
            return [(r, rv) for r in states]

        def rf(blk, si, st):
            rs, rv = st
            return [(r, rv) for r in (refine(blk, si, rs) if refine else [rs])]

        res = g.explore([(s, None) for s in inits], tr, rf)
        self.stack.pop()
        outs = []
        for (st, via) in res.exits:
            if g.blocks[via].noret:
                continue
            o = (st[0], st[1], via)
            if o not in outs:
                outs.append(o)
        return res, outs
