"""Shared helpers for the tasking properties (C02): expression normal forms, closure (lambda) facts,
stable names, CFG position reachability, and the closure hand-off analysis.

Everything works on resolved declarations (side table `q`/`d`), never on source text.
"""
import re

# ---- external start / join vocabulary (DESIGN.md Appendix A); resolved through the callee declaration
RX_TBB_ENQUEUE = re.compile(r'^tbb::(\w+::)*task_arena(_base)?::enqueue$')
RX_TBB_RUN = re.compile(r'^tbb::(\w+::)*task_group(_base)?::run$')
RX_TBB_WAIT = re.compile(r'^tbb::(\w+::)*task_group(_base)?::wait$')
THREAD_CTOR = 'std::thread::thread'
THREAD_JOIN = 'std::thread::join'
THREAD_DETACH = 'std::thread::detach'
THREAD_JOINABLE = 'std::thread::joinable'
ENKI_SUBMIT = 'enki::TaskScheduler::AddTaskSetToPipe'
ENKI_WAIT = ('enki::TaskScheduler::WaitforTask', 'enki::TaskScheduler::WaitforTaskSet')
ENKI_TASKSET = 'enki::ITaskSet'
ENKI_COMPLETABLE = 'enki::ICompletable'
ENKI_EXECUTE = 'enki::ITaskSet::ExecuteRange'
ENKI_ISCOMPLETE = 'enki::ICompletable::GetIsComplete'
FORWARDERS = ('std::move', 'std::forward')

CALLS = ('CallExpr', 'CXXMemberCallExpr', 'CXXOperatorCallExpr')
CONSTRUCTS = ('CXXConstructExpr', 'CXXTemporaryObjectExpr')
CASTS_EXPLICIT = ('CStyleCastExpr', 'CXXStaticCastExpr', 'CXXReinterpretCastExpr', 'CXXConstCastExpr', 'CXXFunctionalCastExpr')


def clean_t(t):
    t = (t or '').replace('const ', '').replace('volatile ', '').replace('&', '').strip()
    if t.endswith(' const'):
        t = t[:-6]
    return t.strip()


def is_copy_construct(tu, e):
    """CXXConstructExpr with one argument of the constructed type (copy / move): value-transparent"""
    if e.get('kind') not in CONSTRUCTS:
        return False
    ks = tu.kids(e)
    if len(ks) != 1:
        return False
    a = clean_t(tu.sd(e).get('cty') or tu.sd(e).get('ct'))
    b = clean_t(tu.sd(ks[0]).get('ct'))
    if not b:
        x = tu.strip(ks[0], casts=True)
        b = clean_t(tu.sd(x).get('ct')) if x is not None else ''
    return bool(a) and a == b


def core(tu, e):
    """normal form of a value expression: strips implicit nodes, casts, std::move/forward and copies"""
    n = 0
    while e is not None and n < 40:
        n += 1
        e = tu.strip(e, casts=True)
        if e is None:
            return None
        k = e.get('kind')
        if k == 'CallExpr':
            sd, obj, args = tu.call_parts(e)
            if sd.get('q') in FORWARDERS and len(args) == 1:
                e = args[0]
                continue
        if k in CONSTRUCTS and is_copy_construct(tu, e):
            e = tu.kids(e)[0]
            continue
        return e
    return e


def call_parts(tu, n):
    """tu.call_parts, but also splits off the object of a closure call (lambda classes have an empty record name)"""
    sd, obj, args = tu.call_parts(n)
    if n.get('kind') == 'CXXOperatorCallExpr' and obj is None and 'rec' in sd and args:
        return sd, args[0], args[1:]
    return sd, obj, args


def decl_ref(tu, e):
    c = core(tu, e)
    if c is not None and c.get('kind') == 'DeclRefExpr':
        return c.get('referencedDecl', {}).get('id')
    return None


OWNER_ALIAS_FIELDS = set()      # fields of functor classes that hold the owner's `this` (Runner{this, ...}: self->member == this->member)


def is_this_expr(tu, e):
    c = core(tu, e)
    if c is None:
        return False
    if c.get('kind') == 'CXXThisExpr':
        return True
    if c.get('kind') == 'MemberExpr' and tu.sd(c).get('d') in OWNER_ALIAS_FIELDS and tu.kids(c):
        b = core(tu, tu.kids(c)[0])
        return b is not None and b.get('kind') == 'CXXThisExpr'
    return False


def member_parts(tu, e):
    """(field decl id, base expr) if e is a member access"""
    c = core(tu, e)
    if c is not None and c.get('kind') == 'MemberExpr' and tu.sd(c).get('k') == 'member':
        ks = tu.kids(c)
        return tu.sd(c).get('d'), (ks[0] if ks else None), c
    return None, None, None


def member_of_this(tu, e):
    d, base, c = member_parts(tu, e)
    if d is not None and base is not None and is_this_expr(tu, base):
        return d
    return None


def addr_of(tu, e):
    """operand x if e is &x"""
    c = core(tu, e)
    if c is not None and c.get('kind') == 'UnaryOperator' and c.get('opcode') == '&':
        return tu.kids(c)[0]
    return None


def deref_of(tu, e):
    """operand p if e is *p (or p->, handled by the caller)"""
    c = core(tu, e)
    if c is not None and c.get('kind') == 'UnaryOperator' and c.get('opcode') == '*':
        return tu.kids(c)[0]
    return None


def access_path(tu, e, depth=0):
    """(root, field, field, ...) for a chain of member accesses rooted at a variable or `this`"""
    c = core(tu, e)
    if c is None or depth > 8:
        return None
    k = c.get('kind')
    if k == 'DeclRefExpr':
        return (c.get('referencedDecl', {}).get('id'),)
    if k == 'CXXThisExpr':
        return ('this',)
    if k == 'MemberExpr':
        ks = tu.kids(c)
        if not ks:
            return None
        b = access_path(tu, ks[0], depth + 1)
        return None if b is None else b + (tu.sd(c).get('d'),)
    if k == 'UnaryOperator' and c.get('opcode') == '*':
        return access_path(tu, tu.kids(c)[0], depth + 1)
    return None


def short_name(q):
    """qualified name without template arguments and parameter lists (stable part of a finding key)"""
    q = q.replace('(anonymous class)::operator()', '{closure}').replace('operator()', 'operator-call')
    prev = None
    while prev != q:
        prev = q
        q = re.sub(r'<[^<>]*>', '', q)
    prev = None
    while prev != q:
        prev = q
        q = re.sub(r'\([^()]*\)', '', q)
    q = q.replace('{closure}', '<closure>')
    for p in ('rkcommon::tasking::detail::', 'rkcommon::tasking::'):
        if q.startswith(p):
            q = q[len(p):]
    return q


def fn_label(tu, f):
    return '[%s] %s %s' % (tu.config, f['q'].replace('rkcommon::tasking::', ''), f.get('fty', ''))


def fn_decl(tu, f):
    return tu.node(f['id'])


def derived_from(tu, rec, base, depth=0):
    if rec is None or depth > 8:
        return False
    if rec.get('q') == base:
        return True
    for b in rec.get('bases', ()):
        if b == base:
            return True
        for r in tu.records.values():
            if r.get('q') == b and derived_from(tu, r, base, depth + 1):
                return True
    return False


def record_of_type(tu, t):
    t = clean_t(t)
    if t.endswith('*'):
        t = t[:-1].strip()
    r = tu.records_by_type.get(t)
    if r is not None:
        return [r]
    return [r for r in tu.records.values() if r.get('q') == t or r.get('type') == t]


# ------------------------------------------------------------------------------------------------
#  lambdas
# ------------------------------------------------------------------------------------------------
class Closure:
    """facts of one LambdaExpr: call operator, captures (kind, captured decl or `this`)"""

    def __init__(self, tu, node):
        self.tu = tu
        self.node = node
        sd = tu.sd(node)
        self.op = tu.functions.get(sd.get('op'))
        ks = tu.kids(node)
        self.body = ks[-1] if ks else None
        fields = []
        if ks and ks[0].get('kind') == 'CXXRecordDecl':
            fields = [x for x in tu.kids(ks[0]) if x.get('kind') == 'FieldDecl']
        inits = ks[1:-1] if len(ks) >= 2 else []
        self.captures = []          # (what, byref) ; what = 'this' | decl id
        self.fieldmap = {}
        for i, init in enumerate(inits):
            c = core(tu, init)
            what = None
            if c is not None and c.get('kind') == 'CXXThisExpr':
                what = 'this'
            elif c is not None and c.get('kind') == 'DeclRefExpr':
                what = c.get('referencedDecl', {}).get('id')
            fty = fields[i].get('type', {}) if i < len(fields) else {}
            qt = fty.get('desugaredQualType') or fty.get('qualType') or ''
            self.captures.append((what, qt.rstrip().endswith('&'), qt))

    def captures_this(self):
        return any(w == 'this' for w, r, t in self.captures)

    def capture_of(self, declid):
        for w, r, t in self.captures:
            if w == declid:
                return (w, r, t)
        return None


class FunctorClosure:
    """a named functor class constructed in place: its fields are the captures (field <- constructor argument)"""

    def __init__(self, tu, node, rec, op, ctor):
        self.tu, self.node, self.rec, self.op = tu, node, rec, op
        self.captures = []
        self.fieldmap = {}     # field id -> captured decl id | 'this'
        args = tu.kids(node)
        g = tu.cfg(ctor) if ctor is not None else None
        ftypes = {f['id']: f for f in rec.get('fields', [])}
        if g is not None:
            for b, i, e in g.elements():
                if e[0] == 'I' and e[2]:
                    d = decl_ref(tu, tu.node(e[1]))
                    for pi, p in enumerate(ctor['params']):
                        if p['id'] == d and pi < len(args):
                            c = core(tu, args[pi])
                            what = None
                            if c is not None and c.get('kind') == 'CXXThisExpr':
                                what = 'this'
                            elif c is not None and c.get('kind') == 'DeclRefExpr':
                                what = c.get('referencedDecl', {}).get('id')
                            ft = ftypes.get(e[2], {}).get('type', '')
                            # a reference member bound to a by-value/rvalue constructor parameter dangles just like a by-reference capture
                            self.captures.append((what, ft.rstrip().endswith('&'), ft))
                            self.fieldmap[e[2]] = what
                            if what == 'this':
                                OWNER_ALIAS_FIELDS.add(e[2])

    def captures_this(self):
        return any(w == 'this' for w, r, t in self.captures)

    def capture_of(self, declid):
        for w, r, t in self.captures:
            if w == declid:
                return (w, r, t)
        return None


class AggregateClosure(FunctorClosure):
    """Functor{this, f}: aggregate initialisation, field i <- initialiser i"""

    def __init__(self, tu, node, rec, op):
        self.tu, self.node, self.rec, self.op = tu, node, rec, op
        self.captures = []
        self.fieldmap = {}
        inits = tu.kids(node)
        for fld, init in zip(rec.get('fields', []), inits):
            c = core(tu, init)
            what = None
            if c is not None and c.get('kind') == 'CXXThisExpr':
                what = 'this'
                OWNER_ALIAS_FIELDS.add(fld['id'])
            elif c is not None and c.get('kind') == 'DeclRefExpr':
                what = c.get('referencedDecl', {}).get('id')
            self.captures.append((what, fld.get('type', '').rstrip().endswith('&'), fld.get('type', '')))
            self.fieldmap[fld['id']] = what

    def captures_this(self):
        return any(w == 'this' for w, r, t in self.captures)


def find_closure(tu, e):
    """Closure / FunctorClosure for an argument expression that denotes a callable object built at the call site"""
    lam = find_lambda(tu, e)
    if lam is not None:
        return Closure(tu, lam)
    c = core(tu, e)
    n0 = 0
    while c is not None and c.get('kind') in CONSTRUCTS and len(tu.kids(c)) == 1 and \
            clean_t(tu.sd(c).get('cty', '')).startswith('std::function<') and n0 < 3:
        c = core(tu, tu.kids(c)[0])        # conversion of the functor to std::function
        n0 += 1
    if c is not None and c.get('kind') == 'InitListExpr':
        recs = record_of_type(tu, tu.sd(c).get('ct', '') or c.get('type', {}).get('qualType', ''))
        rec = recs[0] if recs else None
        if rec is not None and not rec.get('lambda'):
            ops = [f for f in tu.functions.values() if f.get('recid') == rec['id'] and not f['dep'] and
                   f['q'].endswith('::operator()') and tu.cfg(f) is not None]
            if len(ops) == 1:
                return AggregateClosure(tu, c, rec, ops[0])
    if c is not None and c.get('kind') == 'DeclRefExpr':
        d = tu.node(c.get('referencedDecl', {}).get('id'))
        if d is not None and d.get('kind') == 'VarDecl' and tu.kids(d) and tu.enclosing_fn(d) is not None:
            c = core(tu, tu.kids(d)[-1])
    if c is not None and c.get('kind') in CONSTRUCTS and not is_copy_construct(tu, c):
        ctor = tu.callee_fn(c)
        rec = tu.records.get(ctor.get('recid')) if ctor is not None else None
        if rec is not None and not rec.get('lambda'):
            ops = [f for f in tu.functions.values() if f.get('recid') == rec['id'] and not f['dep'] and
                   f['q'].endswith('::operator()') and tu.cfg(f) is not None]
            if len(ops) == 1:
                return FunctorClosure(tu, c, rec, ops[0], ctor)
    return None


def find_lambda(tu, e, depth=0):
    """the LambdaExpr an argument expression denotes (through std::function conversions and copies)"""
    c = core(tu, e)
    if c is None or depth > 6:
        return None
    k = c.get('kind')
    if k == 'LambdaExpr':
        return c
    if k in CONSTRUCTS:
        ks = tu.kids(c)
        if len(ks) == 1 and clean_t(tu.sd(c).get('cty', '')).startswith('std::function<'):
            return find_lambda(tu, ks[0], depth + 1)
    if k == 'DeclRefExpr':
        d = tu.node(c.get('referencedDecl', {}).get('id'))
        if d is not None and d.get('kind') == 'VarDecl' and tu.kids(d):
            return find_lambda(tu, tu.kids(d)[-1], depth + 1)
    return None


# ------------------------------------------------------------------------------------------------
#  CFG positions
# ------------------------------------------------------------------------------------------------
def reachable_after(g, pos):
    """yield (block, idx, elem) of every CFG element that can execute after position pos=(bid, idx)"""
    bid, idx = pos
    blk = g.blocks[bid]
    for i in range(idx + 1, len(blk.el)):
        yield blk, i, blk.el[i]
    seen = set()
    work = [s for s in blk.succ if s is not None]
    while work:
        b = work.pop()
        if b in seen:
            continue
        seen.add(b)
        bb = g.blocks[b]
        for i, e in enumerate(bb.el):
            if b == bid and i > idx:
                break  # already produced above
            yield bb, i, e
        work.extend(s for s in bb.succ if s is not None)


def exit_states(g, inits, transfer, refine=None):
    res = g.explore(inits, transfer, refine)
    return {s for s, via in res.exits}, res


def construct_owner(tu, g, n):
    """('var', decl id) | ('member', field id) | ('temp', node id) for the object a construct expression creates"""
    for b, i, e in g.elements():
        if e[0] == 'I':
            c = core(tu, tu.node(e[1]))
            x = tu.node(e[1])
            if (c is not None and c.get('id') == n['id']) or (x is not None and any(y.get('id') == n['id'] for y in _thin(tu, x))):
                if e[2]:
                    return ('member', e[2])
                return ('base', e[3])
    p = tu.par(n)
    hops = 0
    while p is not None and hops < 8:
        k = p.get('kind')
        if k == 'VarDecl':
            return ('var', p['id'])
        if k in ('ImplicitCastExpr', 'ParenExpr', 'ExprWithCleanups', 'MaterializeTemporaryExpr', 'CXXBindTemporaryExpr',
                 'CXXNewExpr', 'CXXFunctionalCastExpr') or (k in CONSTRUCTS and is_copy_construct(tu, p)):
            p = tu.par(p)
            hops += 1
            continue
        if k in CONSTRUCTS and is_smart_ptr(tu.sd(p).get('cty', '')) and len(tu.kids(p)) == 1:
            p = tu.par(p)       # std::unique_ptr<T> v(new T(...)): the variable owns the new object
            hops += 1
            continue
        break
    return ('temp', n['id'])


def is_smart_ptr(t):
    t = clean_t(t)
    return t.startswith('std::unique_ptr<') or t.startswith('std::shared_ptr<')


def pointer_var(tu, e):
    """(decl id, how) of the variable a pointer expression designates: p | smart.get() | smart.release()"""
    d = decl_ref(tu, e)
    if d:
        return d, 'plain'
    c = core(tu, e)
    if c is not None and c.get('kind') == 'CXXMemberCallExpr':
        sd, obj, args = tu.call_parts(c)
        name = sd.get('q', '').split('::')[-1]
        if name in ('get', 'release') and is_smart_ptr(sd.get('rec', '') + '<') and obj is not None and not args:
            d = decl_ref(tu, obj)
            if d:
                return d, name
    return None, None


def _thin(tu, x):
    """x and the chain of value-transparent wrappers below it"""
    n = 0
    while x is not None and n < 12:
        n += 1
        yield x
        k = x.get('kind')
        ks = tu.kids(x)
        if k in ('ImplicitCastExpr', 'ParenExpr', 'ExprWithCleanups', 'MaterializeTemporaryExpr', 'CXXBindTemporaryExpr',
                 'ConstantExpr', 'CXXFunctionalCastExpr') and ks:
            x = ks[-1]
        else:
            return


# ------------------------------------------------------------------------------------------------
#  closure hand-off analysis
# ------------------------------------------------------------------------------------------------
class Handoff:
    """result of analysing how function f treats the closure it receives in parameter pidx"""

    def __init__(self):
        self.events = []      # dicts: kind, node, member (field id or None), callee (fn entry for 'fwd'), wrapper (record)
        self.counts = set()   # number of hand-offs on each path (saturating at 2)
        self.problems = []    # (kind, text, loc)
        self.undecided = []   # text
        self.wrappers = []    # (record, ctor fn, param index, construct node)

    def kinds(self):
        return sorted({e['kind'] for e in self.events})


class HandoffAnalysis:
    def __init__(self, submit_names=(), lib_fn=None):
        self.memo = {}
        self.memo_inh = {}
        self.inherited = {}
        self.submit_names = set(submit_names)   # task-system functions that pass a task to the scheduler
        self.lib_fn = lib_fn or (lambda q: None)

    def analyse(self, tu, f, pidx, stack=(), inherit=None):
        """inherit: member handles {field id: wrap event} established by a caller on the same object (the constructor wrapped the
        closure into a member task, a helper member submits it)"""
        key = (id(tu), f['id'], pidx)
        if inherit:
            self.inherited.setdefault(key, {}).update(inherit)
        if key in self.memo and not (inherit and not self.memo_inh.get(key)):
            return self.memo[key]
        if key in stack:
            return None
        self.memo_inh[key] = bool(self.inherited.get(key))
        h = self._analyse(tu, f, pidx, stack + (key,))
        self.memo[key] = h
        return h

    def _analyse(self, tu, f, pidx, stack):
        h = Handoff()
        g = tu.cfg(f)
        decl = fn_decl(tu, f)
        if g is None or decl is None or pidx >= len(f['params']):
            h.undecided.append('no CFG for %s' % f['q'])
            return h
        carriers = {f['params'][pidx]['id']}
        # aliases: locals copy/move-initialised from a carrier
        for _ in range(3):
            for x in tu.walk(decl):
                if x.get('kind') == 'VarDecl' and x.get('id') not in carriers and tu.kids(x):
                    if decl_ref(tu, tu.kids(x)[-1]) in carriers:
                        carriers.add(x['id'])
        consumed = set()
        ev = {}            # node id -> event dict
        handles_var = {}   # var decl id -> wrap event   (pointer to a heap task wrapping the closure)
        smart_vars = {}    # var decl id -> True if the variable is a std::unique_ptr / shared_ptr owning the task
        keeps = {}         # submit call node id -> smart pointer variable that still owns the task after the hand-off
        smart_release = {} # node id of smart.release() -> variable
        handles_mem = dict(self.inherited.get((id(tu), f['id'], pidx), {}))   # field id -> wrap event (member task wrapping the closure)

        def carrier_arg(a):
            c = core(tu, a)
            if c is not None and c.get('kind') == 'DeclRefExpr' and c.get('referencedDecl', {}).get('id') in carriers:
                return c
            return None

        nodes = [(b, i, n) for b, i, n in g.stmts()]
        for phase, (b, i, n) in [(0, x) for x in nodes] + [(1, x) for x in nodes]:
            k = n.get('kind')
            if (k in CONSTRUCTS) != (phase == 0):
                continue
            if phase == 1 and not ev.get('_aliased'):
                ev['_aliased'] = True
                for _ in range(2):      # pointers copied from a handle of a wrapped task
                    for x in tu.walk(decl):
                        if x.get('kind') == 'VarDecl' and x.get('id') not in handles_var and tu.kids(x):
                            d0 = decl_ref(tu, tu.kids(x)[-1])
                            if d0 in handles_var:
                                handles_var[x['id']] = handles_var[d0]
            if k in CONSTRUCTS:
                if is_copy_construct(tu, n):
                    continue
                sd = tu.sd(n)
                args = tu.kids(n)
                hits = [(ai, carrier_arg(a)) for ai, a in enumerate(args)]
                hits = [(ai, c) for ai, c in hits if c is not None]
                if not hits:
                    continue
                owner = construct_owner(tu, g, n)
                if sd.get('q') == THREAD_CTOR:
                    if hits[0][0] != 0:
                        h.undecided.append('closure passed to std::thread as an argument, not as the callable (%s)' % tu.loc(n))
                        continue
                    if owner[0] == 'temp':       # handle = std::thread(closure): the temporary is moved into the assigned object
                        p2 = tu.par(n)
                        hops2 = 0
                        while p2 is not None and hops2 < 8 and p2.get('kind') in ('ImplicitCastExpr', 'ParenExpr', 'ExprWithCleanups',
                                                                                  'MaterializeTemporaryExpr', 'CXXBindTemporaryExpr',
                                                                                  'CXXFunctionalCastExpr'):
                            p2 = tu.par(p2)
                            hops2 += 1
                        if p2 is not None and p2.get('kind') == 'CXXOperatorCallExpr' and tu.sd(p2).get('q') == 'std::thread::operator=':
                            sd2, obj2, args2 = call_parts(tu, p2)
                            if obj2 is not None and member_of_this(tu, obj2):
                                owner = ('member', member_of_this(tu, obj2))
                            elif obj2 is not None and decl_ref(tu, obj2):
                                owner = ('var', decl_ref(tu, obj2))
                    kind = 'thread-member' if owner[0] == 'member' else 'thread-local'
                    ev[n['id']] = dict(kind=kind, node=n, member=owner[1] if owner[0] == 'member' else None, owner=owner)
                    consumed.add(hits[0][1]['id'])
                    continue
                callee = tu.callee_fn(n)
                recs = [tu.records.get(callee['recid'])] if callee is not None and callee.get('recid') in tu.records else \
                    record_of_type(tu, sd.get('cty', ''))
                if any(derived_from(tu, r, ENKI_TASKSET) for r in recs if r):
                    rec = [r for r in recs if r and derived_from(tu, r, ENKI_TASKSET)][0]
                    w = dict(kind='wrap', node=n, owner=owner, wrapper=rec, ctor=callee, pidx=hits[0][0])
                    h.wrappers.append((rec, callee, hits[0][0], n))
                    if owner[0] == 'var':
                        handles_var[owner[1]] = w
                        vd = tu.node(owner[1])
                        vt = (vd or {}).get('type', {})
                        if is_smart_ptr(vt.get('desugaredQualType') or vt.get('qualType') or ''):
                            smart_vars[owner[1]] = True
                    elif owner[0] == 'member':
                        handles_mem[owner[1]] = w
                    else:
                        h.undecided.append('task object wrapping the closure is a temporary (%s)' % tu.loc(n))
                    consumed.add(hits[0][1]['id'])
                    continue
                if callee is not None and tu.cfg(callee) is not None:
                    # delegated: the callee is analysed (and reported) on its own for what it does with the closure
                    sub = self.analyse(tu, callee, hits[0][0], stack)
                    ev[n['id']] = dict(kind='fwd', node=n, callee=callee, pidx=hits[0][0], sub=sub,
                                       member=owner[1] if owner[0] == 'member' else None, owner=owner)
                    consumed.add(hits[0][1]['id'])
                    continue
                h.undecided.append('closure is stored into an object of type %s whose use is not followed (%s)'
                                   % (sd.get('cty'), tu.loc(n)))
                consumed.add(hits[0][1]['id'])
                continue
            if k == 'CXXMemberCallExpr':
                sd, obj, args = call_parts(tu, n)
                q = sd.get('q', '')
                if q in (THREAD_DETACH, THREAD_JOIN) and obj is not None:
                    ev[n['id']] = dict(kind='release', node=n, obj=obj)
                    continue
                if q.split('::')[-1] == 'release' and obj is not None and decl_ref(tu, obj) in smart_vars:
                    smart_release[n['id']] = decl_ref(tu, obj)
                hits = [(ai, carrier_arg(a)) for ai, a in enumerate(args)]
                hits = [(ai, c) for ai, c in hits if c is not None]
                if not hits:
                    continue
                if RX_TBB_ENQUEUE.match(q) or RX_TBB_RUN.match(q):
                    kind = 'tbb-enqueue' if RX_TBB_ENQUEUE.match(q) else 'tbb-run'
                    ev[n['id']] = dict(kind=kind, node=n, member=member_of_this(tu, obj) if obj is not None else None, obj=obj)
                    consumed.add(hits[0][1]['id'])
                    continue
                callee = tu.callee_fn(n)
                if callee is not None and tu.cfg(callee) is not None:
                    same_obj = obj is not None and is_this_expr(tu, obj) and callee.get('recid') == f.get('recid')
                    sub = self.analyse(tu, callee, hits[0][0], stack, inherit=dict(handles_mem) if same_obj and handles_mem else None)
                    ev[n['id']] = dict(kind='fwd', node=n, callee=callee, pidx=hits[0][0], sub=sub, member=None)
                    consumed.add(hits[0][1]['id'])
                    continue
                h.undecided.append('closure escapes into %s (%s)' % (q or '?', tu.loc(n)))
                consumed.add(hits[0][1]['id'])
                continue
            if k == 'CXXOperatorCallExpr':
                sd, obj, args = call_parts(tu, n)
                if sd.get('q', '').endswith('::operator()') and obj is not None:
                    c = carrier_arg(obj)
                    if c is not None:
                        ev[n['id']] = dict(kind='sync', node=n, member=None)
                        consumed.add(c['id'])
                        continue
                for a in ([obj] if obj is not None else []) + list(args):
                    c = carrier_arg(a)
                    if c is not None:
                        h.undecided.append('closure used by operator %s (%s)' % (sd.get('q'), tu.loc(n)))
                        consumed.add(c['id'])
                continue
            if k == 'CallExpr':
                ks = tu.kids(n)
                sd, obj, args = call_parts(tu, n)
                q = sd.get('q', '')
                if q in FORWARDERS:
                    continue
                if ks and carrier_arg(ks[0]) is not None:       # plain function pointer closure: fcn()
                    ev[n['id']] = dict(kind='sync', node=n, member=None)
                    consumed.add(carrier_arg(ks[0])['id'])
                    continue
                # a task object wrapping the closure handed to the task system
                if q in self.submit_names:
                    for a in args:
                        d, how = pointer_var(tu, a)
                        w = handles_var.get(d) if d else None
                        if w is not None and how in ('plain', 'get') and smart_vars.get(d):
                            keeps[n['id']] = d    # the smart pointer still owns the submitted task
                        if w is None:
                            x = addr_of(tu, a)
                            m = member_of_this(tu, x) if x is not None else None
                            w = handles_mem.get(m) if m else None
                            mem = m
                        else:
                            mem = None
                        if w is not None:
                            ev[n['id']] = dict(kind='enki', node=n, member=mem, wrap=w, via=q)
                    if n['id'] in ev:
                        continue
                else:
                    esc = [a for a in args if pointer_var(tu, a)[0] in handles_var or
                           (addr_of(tu, a) is not None and member_of_this(tu, addr_of(tu, a)) in handles_mem)]
                    if esc and self.lib_fn(q) is None and (tu.callee_fn(n) is None or tu.cfg(tu.callee_fn(n)) is None):
                        h.undecided.append('the task object wrapping the closure is passed to %s, which is not a known task-system '
                                           'entry point and has no body in the analysed units (%s)' % (q or '?', tu.loc(n)))
                hits = [(ai, carrier_arg(a)) for ai, a in enumerate(args)]
                hits = [(ai, c) for ai, c in hits if c is not None]
                if not hits:
                    continue
                callee = tu.callee_fn(n)
                if callee is not None and tu.cfg(callee) is not None:
                    sub = self.analyse(tu, callee, hits[0][0], stack)
                    ev[n['id']] = dict(kind='fwd', node=n, callee=callee, pidx=hits[0][0], sub=sub, member=None)
                    consumed.add(hits[0][1]['id'])
                    continue
                h.undecided.append('closure escapes into %s (%s)' % (q or '?', tu.loc(n)))
                consumed.add(hits[0][1]['id'])
        # unconsumed references to the closure
        for x in tu.walk(decl):
            if x.get('kind') == 'DeclRefExpr' and x.get('referencedDecl', {}).get('id') in carriers and x['id'] not in consumed:
                p = tu.par(x)
                # initialiser of an alias variable / copy is fine
                hops = 0
                while p is not None and hops < 8 and (p.get('kind') in ('ImplicitCastExpr', 'ParenExpr', 'ExprWithCleanups',
                      'MaterializeTemporaryExpr', 'CXXBindTemporaryExpr') or (p.get('kind') in CONSTRUCTS and is_copy_construct(tu, p))
                      or (p.get('kind') == 'CallExpr' and tu.sd(p).get('q') in FORWARDERS)):
                    p = tu.par(p)
                    hops += 1
                if p is not None and p.get('kind') == 'VarDecl' and p.get('id') in carriers:
                    continue
                if p is not None and p.get('kind') in ('UnaryExprOrTypeTraitExpr', 'DecltypeType', 'CXXNoexceptExpr'):
                    continue
                if p is not None and p.get('kind') in ('CStyleCastExpr', 'CXXStaticCastExpr', 'CXXFunctionalCastExpr') and p.get('castKind') == 'ToVoid':
                    continue        # explicitly discarded
                h.undecided.append('use of the closure is not recognised: %s (%s)' % (tu.show(p) if p is not None else '?', tu.loc(x)))
        ev.pop('_aliased', None)
        h.events = [e for e in ev.values() if e['kind'] != 'release']

        # ---- path exploration: hand-off count and pending joinable threads
        def thread_obj_owner(obj):
            d = decl_ref(tu, obj)
            if d:
                return ('var', d)
            m = member_of_this(tu, obj)
            if m:
                return ('member', m)
            c = core(tu, obj)
            if c is not None and c.get('kind') in CONSTRUCTS:
                return ('temp', c['id'])
            return None

        def transfer(blk, idx, e, st):
            cnt, pend = st
            if e[0] == 'S':
                if e[1] in smart_release:
                    pend = pend - {('smart', smart_release[e[1]])}
                    st = (cnt, pend)
                x = ev.get(e[1])
                if x is None:
                    return [st]
                if e[1] in keeps:
                    pend = pend | {('smart', keeps[e[1]])}
                if x['kind'] == 'release':
                    o = thread_obj_owner(x['obj'])
                    if o in pend:
                        return [(cnt, pend - {o})]
                    return [st]
                cnt = min(2, cnt + 1)
                if x['kind'] == 'thread-local':
                    pend = pend | {x['owner']}
                return [(cnt, pend)]
            if e[0] == 'AD' and ('smart', e[1]) in pend:
                h.problems.append(('task-freed-after-submit',
                                   'the smart pointer `%s` still owns the task object after it has been handed to the task system (no '
                                   'release()): its destructor deletes the task while the scheduler may still run or update it' % e[2],
                                   tu.fn_loc(f)))
                return [(cnt, pend - {('smart', e[1])})]
            if e[0] == 'AD':
                o = ('var', e[1])
                if o in pend and e[1] in thread_escapes:
                    h.undecided.append('std::thread `%s` started with the closure is passed to %s, which is not followed: cannot see '
                                       'whether it is detached or joined' % (e[2], thread_escapes[e[1]]))
                    return [(cnt, pend - {o})]
                if o in pend:
                    h.problems.append(('thread-not-detached',
                                       'std::thread `%s` started with the closure is destroyed while still joinable on some path '
                                       '(neither detach() nor join() was called): std::terminate' % e[2], tu.fn_loc(f)))
                    return [(cnt, pend - {o})]
            if e[0] == 'TD':
                c = core(tu, tu.node(e[1]))
                if c is not None:
                    o = ('temp', c['id'])
                    if o in pend:
                        h.problems.append(('thread-not-detached', 'temporary std::thread started with the closure is destroyed '
                                           'while still joinable: std::terminate', tu.fn_loc(f)))
                        return [(cnt, pend - {o})]
            return [st]

        thread_escapes = {}
        tvars = {e['owner'][1] for e in ev.values() if e['kind'] == 'thread-local' and e['owner'][0] == 'var'}
        if tvars:
            for b, i, x in nodes:
                if x.get('kind') in CALLS + CONSTRUCTS:
                    sd, obj, args = call_parts(tu, x)
                    if sd.get('q') in (THREAD_DETACH, THREAD_JOIN, THREAD_JOINABLE):
                        continue
                    for a in args:
                        c = core(tu, a)
                        if c is not None and c.get('kind') == 'UnaryOperator' and c.get('opcode') == '&':
                            c = core(tu, tu.kids(c)[0])
                        if c is not None and c.get('kind') == 'DeclRefExpr' and c.get('referencedDecl', {}).get('id') in tvars:
                            thread_escapes[c['referencedDecl']['id']] = '%s (%s)' % (sd.get('q'), tu.loc(x))
        try:
            exits, res = exit_states(g, [(0, frozenset())], transfer)
        except RuntimeError as ex:
            h.undecided.append(str(ex))
            exits = set()
        h.counts = {c for c, p in exits}
        h.problems = sorted(set(h.problems))
        return h
