"""x_valueflow - inlining value-flow interpreter over clang CFGs (shared helper, no rkcommon specifics).

Purpose: decide clauses of the form "parameter p reaches API call f as itself, exactly on the paths where
p > 0", "the function returns g() iff the global handle is non-null", "the size product cannot wrap on any path
that reaches the allocation", "every path stores a fresh object in the global".  It is a *dataflow* analysis:
no code is executed and no solver is called.

Abstract values are canonical polynomials (``x_expr.Poly``) over atoms:
    ('param', name)                 entry value of a parameter of the analysed entry function
    ('glob', qualified-name)        entry value held by a global / static variable (for smart pointers: the pointer)
    ('field', object-atom, name)    entry value of a data member
    ('new', type, site)             object created by a new-expression at `site`  (never null)
    ('local'|'temp', ...)           identity of a local / temporary class object
    ('enum', qualified-name)        enumerator
    ('call', q, object, args, site) result of a call whose body is not analysed (or that the client declared an API)
    ('hw', q, site)                 result of a call the client declared "hardware derived"
    ('conv', type, value)           integral conversion that may change the value
    ('widen', ...)                  value assigned inside a loop (unknown)
    opaque operations from x_expr   ('div', a, b), ('mod', a, b), ('bool', normal form) ...

A state is (facts, environment, memory, events):
    facts    atom -> integer interval; refined on every CFG edge whose condition is a comparison that is linear in
             one atom (exact path splitting; pointers use [0,0] = null, [1,inf) = non-null)
    env      local variables / parameters of the frames on the inlining stack
    memory   values stored to globals and data members on this path (sequential model)
    events   ordered, duplicate-free tuple of ('call', q, object, args, loc) for calls without analysed body,
             ('store', location, value, loc), ('throw', type, loc), ('nullderef', what, loc), ('wrap', text, loc)
Calls whose body is available in one of the given translation units are inlined (bodies are looked up across
TUs by qualified name and signature).  std::unique_ptr / std::shared_ptr are modelled as a cell holding a
pointer (constructor, =, reset, release, get, ->, *, bool); std::move / std::forward are the identity.

What makes a result *approximate* is recorded in ``Path.approx`` (a branch on a tracked atom that could not be
refined, an assignment through a pointer, ...).  Clients must turn a would-be violation on an approximate path
into `undecided`.
"""
from fractions import Fraction

from .x_expr import INF, Normalizer, Poly, Rel, decide_bool, is_unsigned, nnf, show_atom, type_range

SMART = ('std::unique_ptr', 'std::shared_ptr')
IDENTITY_FNS = ('std::move', 'std::forward', 'std::addressof', 'std::move_if_noexcept')
CALLS = ('CallExpr', 'CXXMemberCallExpr', 'CXXOperatorCallExpr', 'CXXConstructExpr', 'CXXTemporaryObjectExpr')


class St:
    """immutable state: a dict with a cached hash"""
    __slots__ = ('d', '_h')

    def __init__(self, d):
        self.d = d
        self._h = None

    def __hash__(self):
        if self._h is None:
            self._h = hash(frozenset(self.d.items()))
        return self._h

    def __eq__(self, o):
        return isinstance(o, St) and self.d == o.d

    def get(self, k, default=None):
        return self.d.get(k, default)

    def set(self, k, v):
        if self.d.get(k, None) == v and k in self.d:
            return self
        d = dict(self.d)
        d[k] = v
        return St(d)

    def drop(self, pred):
        d = {k: v for k, v in self.d.items() if not pred(k)}
        return St(d) if len(d) != len(self.d) else self

    def event(self, ev):
        evs = self.d.get('ev', ())
        if ev in evs:
            return self
        return self.set('ev', evs + (ev,))

    def approx(self, why):
        a = self.d.get('approx', ())
        if why in a:
            return self
        return self.set('approx', a + (why,))


class Frame:
    def __init__(self, ti, tu, fn, this, depth, parent=None):
        self.ti, self.tu, self.fn, self.this, self.depth, self.parent = ti, tu, fn, this, depth, parent
        self.key = '%d:%s' % (ti, fn['id'])
        self.g = tu.cfg(fn)
        self.targets = {}     # init-expression id -> field name | '<base>'
        self.cyclic = set()
        if self.g is not None:
            for b in self.g.blocks.values():
                for e in b.el:
                    if e[0] == 'I':
                        self.targets[e[1]] = e[3]
            self.cyclic = _cyclic_blocks(self.g)

    def chain(self):
        out, f = [], self
        while f is not None:
            out.append('%s (%s)' % (f.fn['q'], f.tu.fn_loc(f.fn)))
            f = f.parent
        return list(reversed(out))


def _cyclic_blocks(g):
    """ids of blocks that lie on a cycle"""
    succ = {b.id: [s for s in b.succ if s is not None] for b in g.blocks.values()}
    out = set()
    for b in succ:
        seen, stack = set(), list(succ[b])
        while stack:
            x = stack.pop()
            if x == b:
                out.add(b)
                break
            if x in seen:
                continue
            seen.add(x)
            stack.extend(succ[x])
    return out


class Path:
    def __init__(self, flow, state, ret, kind):
        self.flow, self.state, self.ret, self.kind = flow, state, ret, kind
        self.events = state.get('ev', ())
        self.approx = state.get('approx', ())

    def bounds(self, atom):
        return self.flow.bounds(self.state, atom)

    def mem(self, loc):
        return self.state.get(('mem', loc))

    def stores(self):
        return {k[1]: v for k, v in self.state.d.items() if isinstance(k, tuple) and k[0] == 'mem'}

    def calls(self, pred):
        return [e for e in self.events if e[0] == 'call' and pred(e[1])]

    def throws(self):
        return [e for e in self.events if e[0] == 'throw']


class _Norm(Normalizer):
    def __init__(self, flow, s, fr):
        Normalizer.__init__(self, fr.tu)
        self.flow, self.s, self.fr = flow, s, fr

    def leaf(self, n):
        return self.flow.leaf_val(n, self.s, self.fr, self)

    def cast(self, n, v):
        return self.flow.cast_val(n, v, self.s, self.fr)

    def _arith(self, n, result, operands=()):
        ct = self.tu.sd(n).get('ct')
        if ct and ct.rstrip().endswith('*') and n.get('kind') == 'BinaryOperator' and len(operands) == 2:
            # pointer +/- integer: the integer counts elements, addresses count bytes
            pointee = ct.rstrip()[:-1].replace('const ', '').replace('volatile ', '').strip()
            tr = type_range(pointee)
            es = 1 if pointee in ('char', 'unsigned char', 'signed char', 'void') else 8 if pointee.endswith('*') else \
                None if tr is None else max(1, (int(tr[1] - tr[0]).bit_length() + 7) // 8)
            ks = self.tu.kids(n)
            lct = (self.tu.sd(ks[0]).get('ct') or '').rstrip()
            pi = 0 if lct.endswith('*') else 1          # which operand is the pointer
            if es is None:
                return Poly.atom(('unk', 'pointer arithmetic on %s' % ct, n.get('id')))
            if es != 1:
                a, b = operands
                ptr, off = (a, b) if pi == 0 else (b, a)
                return ptr + off * es if n.get('opcode') == '+' else ptr - off * es
            return result
        tr = type_range(ct)
        if tr is not None and is_unsigned(ct) and not result.is_const():
            lo, hi = result.range(lambda a: self.flow.bounds(self.s, a))
            # a comparison known to hold on this path (path constraint) may exclude the wrap: x - y with y <= x
            if lo < tr[0] and self.s.get(('pc', Rel.make(result, '>=', tr[0]))):
                lo = tr[0]
            if hi > tr[1] and self.s.get(('pc', Rel.make(result, '<=', tr[1]))):
                hi = tr[1]
            if lo < tr[0] or hi > tr[1]:
                self.modular.append((n, result.show()))
        return result


class Flow:
    MAX_DEPTH = 10

    def __init__(self, tus, api=None, hw=None, limit=200000):
        self.tus = list(tus)
        self.api = api or (lambda q: False)      # q -> bool: record as event, never inline
        self.hw = hw or (lambda q: False)        # q -> bool: result is a hardware-derived count
        self.defbounds = {}
        self.terminated = []
        self.limit = limit
        self.hw_bounds = (1, 2 ** 31 - 1)        # assumption: the platform reports a positive processor count that fits int

    # ------------------------------------------------------------------ bounds / truth
    def bounds(self, s, atom, exact_div=False):
        """exact_div: the caller has established that no arithmetic in the expression can wrap in state s, so (c*a)/a may be
        read over the integers"""
        b = s.get(('fact', atom))
        if b is not None:
            return b
        b = self.defbounds.get(atom)
        if b is not None:
            return b
        if isinstance(atom, tuple) and atom:
            if atom[0] == 'bool':
                return (0, 1)
            if atom[0] == 'new':
                return (1, INF)
            if atom[0] in ('local', 'temp', 'this'):
                return (1, INF)
            if atom[0] in ('min', 'max') and len(atom) == 3 and all(isinstance(x, Poly) for x in atom[1:]):
                (alo, ahi), (blo, bhi) = (x.range(lambda a: self.bounds(s, a)) for x in atom[1:])
                f = min if atom[0] == 'min' else max
                return (f(alo, blo), f(ahi, bhi))
            if exact_div and atom[0] == 'div' and len(atom) == 3 and isinstance(atom[1], Poly) and isinstance(atom[2], Poly):
                da = atom[2].as_atom()
                if da is not None:
                    lin = atom[1].linear_in(da)
                    dlo, dhi = self.bounds(s, da)
                    if lin is not None and lin[1].as_int() == 0 and lin[0].denominator == 1 and (dlo > 0 or dhi < 0):
                        return (lin[0], lin[0])         # (c*a) / a == c for a != 0 (over the integers; wrapping is handled apart)
            if atom[0] in ('div', 'shr') and len(atom) == 3 and isinstance(atom[1], Poly) and isinstance(atom[2], Poly):
                c = atom[2].as_int()
                if c is not None and atom[0] == 'shr' and 0 <= c < 64:
                    c = 2 ** c
                if c is not None and c >= 1:
                    nlo, nhi = atom[1].range(lambda a: self.bounds(s, a))
                    if nlo >= 0 and nhi != INF:
                        return (int(nlo) // c, int(nhi) // c)     # non-negative dividend, positive constant divisor
            if atom[0] == 'mod' and len(atom) == 3:
                c = atom[2].as_int() if isinstance(atom[2], Poly) else None
                lo, _hi = atom[1].range(lambda a: self.bounds(s, a)) if isinstance(atom[1], Poly) else (-INF, INF)
                if c and c > 0 and lo >= 0:
                    return (0, c - 1)
        return (-INF, INF)

    def set_default(self, atom, ct):
        if atom in self.defbounds or ct is None:
            return
        tr = type_range(ct)
        if tr is not None:
            self.defbounds[atom] = tr
        elif ct.rstrip().endswith('*') or ct.rstrip().endswith('*const') or \
                any(ct.replace('const ', '').startswith(x) for x in SMART):
            self.defbounds[atom] = (0, 2 ** 64 - 1)

    def condnf(self, n, s, fr):
        return nnf(_Norm(self, s, fr).cond(n))

    def truth(self, n, s, fr):
        b = self.condnf(n, s, fr)
        ws = self.wrap_sites(n, s, fr)
        if ws:
            b = self.explain_wrap_tests(b, ws, s, fr, n)
            if b is None:
                return None         # computed from a wrapped value in a way that has no exact reading
            return decide_bool(b, lambda a: self.bounds(s, a))
        return decide_bool(b, lambda a: self.bounds(s, a, exact_div=True))

    def val(self, n, s, fr):
        nm = _Norm(self, s, fr)
        v = nm.poly(n)
        a = v.as_atom()
        if isinstance(a, tuple) and a and a[0] == 'bool':
            t = decide_bool(a[1], lambda x: self.bounds(s, x))
            if t is not None:
                return Poly.const(1 if t else 0)
        return v

    def wrap_sites(self, n, s, fr):
        """unsigned arithmetic nodes inside n - and inside the remembered initialisers of the locals n mentions - whose
        mathematical value may leave the type's range in state s"""
        tu = fr.tu
        todo, seen, sites = [n], set(), []
        while todo and len(seen) < 40:
            x = todo.pop()
            if x is None or x['id'] in seen:
                continue
            seen.add(x['id'])
            nm = _Norm(self, s, fr)
            nm.poly(x)
            sites += nm.modular
            stack = [x]
            while stack:
                y = stack.pop()
                if not isinstance(y, dict):
                    continue
                if y.get('kind') in CALLS and y is not x:
                    continue            # a call result is an opaque value; its arguments were examined at the call
                if y.get('kind') in CALLS and y is x and x is not n:
                    continue
                if y.get('kind') == 'DeclRefExpr':
                    iid = s.get(('init', fr.key, y.get('referencedDecl', {}).get('id')))
                    if iid is not None:
                        todo.append(tu.node(iid))
                stack.extend(y.get('inner', ()))
        return sites

    def cast_val(self, n, v, s, fr):
        ct = fr.tu.sd(n).get('ct')
        tr = type_range(ct)
        if tr is None:
            return v
        c = v.as_int()
        if c is not None:
            if tr[0] <= c <= tr[1]:
                return v
            width = tr[1] - tr[0] + 1
            return Poly.const((c - tr[0]) % width + tr[0])
        lo, hi = v.range(lambda a: self.bounds(s, a))
        if lo >= tr[0] and hi <= tr[1]:
            return v
        a = ('conv', ct, v)
        self.defbounds.setdefault(a, tr)
        return Poly.atom(a)

    # ------------------------------------------------------------------ locations and leaves
    def is_global_ref(self, n, fr):
        rd = n.get('referencedDecl', {})
        q = fr.tu.sd(n).get('q', '')
        if rd.get('kind') != 'VarDecl':
            return False
        if '::' in q:
            return True
        d = fr.tu.node(rd.get('id'))
        return d is not None and d.get('storageClass') == 'static' or (d is not None and d.get('tls') is not None)

    def global_name(self, n, fr):
        """name of the persistent location a reference designates (function-local statics are prefixed by their function)"""
        q = fr.tu.sd(n).get('q', '')
        return q if '::' in q else '%s::%s' % (fr.fn['q'], q or n.get('referencedDecl', {}).get('name'))

    def loc_of(self, n, s, fr):
        """abstract location of an lvalue expression, or None"""
        tu = fr.tu
        n = tu.strip(n, casts=True)
        if n is None:
            return None
        k = n.get('kind')
        if k == 'DeclRefExpr':
            rd = n.get('referencedDecl', {})
            rl = s.get(('refloc', fr.key, rd.get('id')))
            if rl is not None:
                return rl
            if ('env', fr.key, rd.get('id')) in s.d:
                return ('envvar', fr.key, rd.get('id'))
            if self.is_global_ref(n, fr):
                return ('glob', self.global_name(n, fr))
            if rd.get('kind') in ('VarDecl', 'ParmVarDecl'):
                return ('envvar', fr.key, rd.get('id'))
            return None
        if k == 'MemberExpr':
            ks = tu.kids(n)
            base = self.val(ks[0], s, fr) if ks else (fr.this or Poly.atom(('this',)))
            b = base.as_atom()
            if b is None:
                b = ('expr', base)
            return ('field', b, n.get('name'))
        if k == 'UnaryOperator' and n.get('opcode') == '*':
            v = self.val(tu.kids(n)[0], s, fr)
            a = v.as_atom()
            return ('deref', a if a is not None else ('expr', v))
        if k == 'ArraySubscriptExpr':
            ks = tu.kids(n)
            b, i = self.val(ks[0], s, fr), self.val(ks[1], s, fr)
            ct = (tu.sd(n).get('ct') or '').replace('const ', '').strip()
            tr = type_range(ct)
            esize = 8 if ct.endswith('*') else None if tr is None else max(1, (int(tr[1] - tr[0]).bit_length() + 7) // 8)
            return ('elem', b, i, esize)      # esize: size of one element in bytes when known
        if k in CALLS:
            rl = s.get(('retloc', fr.key, n['id']))
            if rl is not None:
                return rl               # call of a function that returned a reference to this location
            # smart pointer dereference yields the pointee: *p / p.operator*()
            v = s.get(('ret', fr.key, n['id']))
            if v is not None:
                a = v.as_atom()
                return ('deref', a if a is not None else ('expr', v))
        return None

    def load(self, loc, s, ct=None, volatile=False):
        if volatile:
            a = ('volatile', loc)
            self.set_default(a, ct)
            return Poly.atom(a)
        v = s.get(('mem', loc))
        if v is not None:
            return v
        self.set_default(loc, ct)
        return Poly.atom(loc)

    def leaf_val(self, n, s, fr, nm):
        tu = fr.tu
        k = n.get('kind')
        sd = tu.sd(n)
        if k == 'DeclRefExpr':
            rd = n.get('referencedDecl', {})
            rl = s.get(('refloc', fr.key, rd.get('id')))
            if rl is not None:
                if rl[0] == 'envvar':
                    v = s.get(('env', rl[1], rl[2]))
                    return v if v is not None else Poly.atom(('uninit', rl[1], rl[2]))
                return self.load(rl, s, sd.get('ct'))
            v = s.get(('env', fr.key, rd.get('id')))
            if v is not None:
                return v
            dk = rd.get('kind')
            if dk == 'EnumConstantDecl':
                return Poly.atom(('enum', sd.get('q', rd.get('name'))))
            if dk in ('FunctionDecl', 'CXXMethodDecl'):
                return Poly.atom(('fn', sd.get('q', rd.get('name'))))
            c = nm.const_of(n)
            if c is not None:
                return c
            if self.is_global_ref(n, fr):
                ct = sd.get('ct', '')
                return self.load(('glob', self.global_name(n, fr)), s, ct, 'volatile' in ct)
            a = ('var', fr.key, rd.get('id'), rd.get('name'))
            self.set_default(a, sd.get('ct'))
            return Poly.atom(a)
        if k == 'MemberExpr':
            loc = self.loc_of(n, s, fr)
            ct = n.get('type', {}).get('qualType', '') + ' ' + sd.get('ct', '')
            return self.load(loc, s, sd.get('ct'), 'volatile' in ct)
        if k == 'CXXThisExpr':
            return fr.this if fr.this is not None else Poly.atom(('this',))
        if k in CALLS:
            rl = s.get(('retloc', fr.key, n['id']))
            if rl is not None:
                return self.load(rl, s, sd.get('ct'))
            v = s.get(('ret', fr.key, n['id']))
            if v is not None:
                return v
            c = nm.const_of(n)
            if c is not None:
                return c
            return Poly.atom(('unk', 'call-not-evaluated', tu.show(n)))
        if k == 'CXXNewExpr':
            return Poly.atom(('new', sd.get('aty', '?'), '%s#%s' % (fr.key, n['id'])))
        if k == 'ConditionalOperator':
            ks = tu.kids(n)
            t = self.truth(ks[0], s, fr)
            if t is True:
                return self.val(ks[1], s, fr)
            if t is False:
                return self.val(ks[2], s, fr)
            return Poly.atom(('ite', self.condnf(ks[0], s, fr), self.val(ks[1], s, fr), self.val(ks[2], s, fr)))
        if k == 'UnaryOperator':
            op = n.get('opcode')
            ks = tu.kids(n)
            if op == '&':
                t = tu.strip(ks[0])
                if t is not None and t.get('kind') == 'DeclRefExpr':
                    did = t.get('referencedDecl', {}).get('id')
                    cur = s.get(('env', fr.key, did))
                    ca = cur.as_atom() if cur is not None else None
                    if cur is not None and not (isinstance(ca, tuple) and ca and ca[0] in ('local', 'new', 'temp')):
                        # address of a scalar / pointer local: the callee may write through it
                        return Poly.atom(('addr', fr.key, did, t.get('referencedDecl', {}).get('name')))
                return self.val(ks[0], s, fr)
            if op == '*':
                return self.val(ks[0], s, fr)
            if op in ('++', '--'):
                v = self.val(ks[0], s, fr)
                if n.get('isPostfix'):
                    return v
                return v + 1 if op == '++' else v - 1
        if k in ('CStyleCastExpr', 'CXXStaticCastExpr', 'CXXReinterpretCastExpr', 'CXXConstCastExpr',
                 'CXXFunctionalCastExpr'):
            ks = tu.kids(n)
            if ks:
                return self.val(ks[-1], s, fr)
        if k == 'ArraySubscriptExpr':
            loc = self.loc_of(n, s, fr)
            return self.load(loc, s, sd.get('ct'))
        if k == 'StringLiteral':
            return Poly.atom(('str', n.get('value')))
        if k == 'BinaryOperator' and n.get('opcode') == '=':
            return self.val(tu.kids(n)[1], s, fr)
        return None

    # ------------------------------------------------------------------ bodies
    def resolve_indirect(self, fr, n):
        """Function called through a pointer whose value is fixed at compile time: a const / constexpr namespace-scope
        variable that is a function pointer, or a function-pointer member of a const aggregate initialised with an
        initializer list (a table of operations).  -> function entry or None."""
        tu = fr.tu
        if n.get('kind') != 'CallExpr' or not tu.kids(n):
            return None
        c = tu.strip(tu.kids(n)[0], casts=True)
        while c is not None and c.get('kind') == 'UnaryOperator' and c.get('opcode') == '*':
            c = tu.strip(tu.kids(c)[0], casts=True)
        init = None
        if c is not None and c.get('kind') == 'MemberExpr' and tu.kids(c):
            b = tu.strip(tu.kids(c)[0], casts=True)
            d = tu.node(b.get('referencedDecl', {}).get('id')) if b is not None and b.get('kind') == 'DeclRefExpr' else None
            fi = tu.sd(c).get('fi')
            if d is not None and d.get('kind') == 'VarDecl' and (d.get('constexpr') or d.get('type', {}).get('qualType', '').startswith('const ')) \
                    and fi is not None:
                il = next((k for k in tu.kids(d) if k.get('kind') == 'InitListExpr'), None)
                if il is None and tu.kids(d):
                    st = tu.strip(tu.kids(d)[-1], casts=True)
                    il = st if st is not None and st.get('kind') == 'InitListExpr' else None
                if il is not None and fi < len(tu.kids(il)):
                    init = tu.kids(il)[fi]
        elif c is not None and c.get('kind') == 'DeclRefExpr' and c.get('referencedDecl', {}).get('kind') == 'VarDecl':
            d = tu.node(c['referencedDecl'].get('id'))
            ty = d.get('type', {}).get('qualType', '') if d is not None else ''
            if d is not None and (d.get('constexpr') or '*const' in ty.replace(' ', '')) and d.get('init') and tu.kids(d):
                init = tu.kids(d)[-1]
        if init is None:
            return None
        t = tu.strip(init, casts=True)
        while t is not None and t.get('kind') == 'UnaryOperator' and t.get('opcode') == '&':
            t = tu.strip(tu.kids(t)[0], casts=True)
        if t is None or t.get('kind') != 'DeclRefExpr' or t.get('referencedDecl', {}).get('kind') not in ('FunctionDecl', 'CXXMethodDecl'):
            return None
        f = tu.functions.get(t['referencedDecl'].get('id'))
        if f is None:
            sdq = tu.sd(t).get('q')
            f = next((g for g in tu.fns(q=sdq, dep=False) if tu.cfg(g) is not None), None) if sdq else None
        return f

    def find_body(self, fr, n):
        tu = fr.tu
        f = tu.callee_fn(n)
        if f is None and not tu.sd(n).get('q'):
            f = self.resolve_indirect(fr, n)
        if f is not None and tu.cfg(f) is not None:
            return fr.ti, tu, f
        sd = tu.sd(n)
        q, fty = sd.get('q'), sd.get('fty')
        if not q:
            return None
        for ti, t in enumerate(self.tus):
            for f in t.fns(q=q, dep=False):
                if t.cfg(f) is not None and (fty is None or _sig(f.get('fty')) == _sig(fty)):
                    return ti, t, f
        return None

    # ------------------------------------------------------------------ running a function
    def run_fn(self, fr, s0):
        """-> list of (state, return value or None) for the normally returning paths"""
        tu, g = fr.tu, fr.g

        def transfer(blk, i, e, s):
            return self.transfer(blk, e, s, fr)

        def refine(blk, si, s):
            return self.refine(blk, si, s, fr)

        res = g.explore([s0], transfer, refine, limit=self.limit)
        outs = []
        for (s, via) in res.exits:
            if g.blocks[via].noret or s.get('$thrown'):
                self.terminated.append(self._leave(s, fr))
                continue
            rv = s.get('$ret')
            s = self._leave(s, fr)
            if (s, rv) not in outs:
                outs.append((s, rv))
        return outs

    def _leave(self, s, fr):
        key = fr.key
        return s.drop(lambda k: k == '$ret' or (isinstance(k, tuple) and k[0] in ('env', 'ret', 'init', 'retloc', 'refloc') and k[1] == key))

    def analyse(self, ti, fn, this=None, facts=None, env=None):
        """run entry function `fn` of translation unit index ti; -> list of Path (returning and terminated)"""
        tu = self.tus[ti]
        fr = Frame(ti, tu, fn, this, 0)
        d = {}
        self.params = {}
        for i, p in enumerate(fn.get('params', [])):
            a = ('param', p.get('name') or 'arg%d' % i)
            self.set_default(a, p.get('ct'))
            self.params[p['id']] = a
            d[('env', fr.key, p['id'])] = Poly.atom(a)
        for k, v in (env or {}).items():
            d[('env', fr.key, k)] = v
        for a, b in (facts or {}).items():
            d[('fact', a)] = b
        self.terminated = []
        outs = self.run_fn(fr, St(d))
        paths = [Path(self, s, rv, 'return') for s, rv in outs]
        seen = set()
        for s in self.terminated:
            if s not in seen:
                seen.add(s)
                paths.append(Path(self, s, None, 'noreturn'))
        return paths

    # ------------------------------------------------------------------ edges
    def refine(self, blk, si, s, fr):
        tn = fr.tu.node(blk.term) if blk.term else None
        if tn is not None and tn.get('kind') == 'SwitchStmt' and blk.cond is not None:
            return self.refine_switch(blk, si, s, fr)
        if blk.cond is None or len(blk.succ) != 2:
            if blk.cond is not None and len([x for x in blk.succ if x is not None]) > 1:
                return [s.approx('multi-way branch at %s' % fr.tu.loc(blk.cond))]
            return [s]
        c = fr.tu.node(blk.cond)
        if c is None:
            return [s]
        # `A && B` / `A || B`: the CFG decides A in an earlier block; in the block that evaluates B the terminator condition
        # is still the whole expression, but its value there is the value of B
        here = {e[1] for e in blk.el if e[0] == 'S'}
        while True:
            cs = fr.tu.strip(c)
            if cs is None or cs.get('kind') != 'BinaryOperator' or cs.get('opcode') not in ('&&', '||'):
                break
            ks = fr.tu.kids(cs)
            l0, l1 = ks[0], fr.tu.strip(ks[0])
            if l0.get('id') in here or (l1 is not None and l1.get('id') in here):
                break
            c = ks[1]
        ws = self.wrap_sites(c, s, fr)
        if ws:
            split = self.split_offset_wrap(c, ws, s, fr)
            if split is not None:
                # `x - c OP K` / `x + c OP K` on an unsigned x: decided separately for the values of x that do not wrap and
                # for those that do (where the C++ value is the mathematical one shifted by 2^width)
                want = (si == 0)
                out = []
                for s_i, b_i in split:
                    t = decide_bool(b_i, lambda a, s_i=s_i: self.bounds(s_i, a))
                    if t is not None:
                        if t == want and s_i not in out:
                            out.append(s_i)
                        continue
                    for s_j in self.add_facts(b_i, want, s_i, fr, c):
                        if s_j not in out:
                            out.append(s_j)
                return out
            b2 = self.explain_wrap_tests(self.condnf(c, s, fr), ws, s, fr, c)
            if b2 is not None:
                # the only use of the wrapping product is the classic after-the-fact test (a*b)/a op b: read it exactly
                want = (si == 0)
                t = decide_bool(b2, lambda a: self.bounds(s, a))
                if t is not None:
                    return [s] if t == want else []
                return self.add_facts(b2, want, s, fr, c)
        if ws:
            # the comparison is computed with unsigned arithmetic that can wrap here: its mathematical reading is not the
            # C++ one, so nothing is learnt from it (both outcomes stay possible) and the path becomes approximate
            return [s.approx('condition `%s` at %s uses unsigned arithmetic that can wrap (`%s`)'
                             % (fr.tu.show(c), fr.tu.loc(c), ws[0][1]))
                    .event(('wrap-in-condition', ws[0][1], fr.tu.loc(c), fr.tu.show(c)))]
        b = self.condnf(c, s, fr)
        want = (si == 0)
        t = decide_bool(b, lambda a: self.bounds(s, a, exact_div=True))     # no wrap site in c under the facts of s
        if t is not None:
            return [s] if t == want else []
        return self.add_facts(b, want, s, fr, c)

    def refine_switch(self, blk, si, s, fr):
        """edge si of a switch: taken iff the condition equals the label of the target block (default: none of the labels).
        Values are compared as constants or as enumerators; anything else keeps the edge and marks the path approximate."""
        tu = fr.tu
        succ = blk.succ[si]
        if succ is None:
            return []
        v = self.val(tu.node(blk.cond), s, fr)

        def label_value(bid):
            lb = fr.g.blocks[bid].label
            ln = tu.node(lb) if lb else None
            if ln is None or ln.get('kind') != 'CaseStmt' or not tu.kids(ln):
                return None if ln is None or ln.get('kind') != 'DefaultStmt' else 'default'
            return self.val(tu.kids(ln)[0], s, fr)

        def comparable(x):
            a = x.as_atom() if isinstance(x, Poly) else None
            return isinstance(x, Poly) and (x.as_int() is not None or (isinstance(a, tuple) and a and a[0] == 'enum'))
        labels = [(b, label_value(b)) for b in blk.succ if b is not None]
        mine = label_value(succ)
        if mine is None:
            return [s]
        if not comparable(v) or any(l is None or (l != 'default' and not comparable(l)) for _b, l in labels):
            return [s.approx('multi-way branch at %s on a value that is not a constant or an enumerator' % tu.loc(blk.cond))] \
                if self.tracked(s, v) else [s]
        if mine == 'default':
            return [] if any(l == v for _b, l in labels if l != 'default') else [s]
        return [s] if mine == v else []

    def explain_wrap_tests(self, nf, ws, s, fr, cond_node=None):
        """`nf` is the (mathematically read) normal form of a condition that contains unsigned products which can wrap (`ws`).
        If every such product R = a*b (b a positive constant, a one value) occurs only as  R / a  compared with a constant,
        the comparison has an exact meaning in modular arithmetic: the quotient is b when a*b did not wrap and lies in
        [0, b-1] when it did (a != 0).  Returns the normal form with those comparisons replaced by their exact reading
        (`a*b > TYPE_MAX`, its negation, or a constant), or None if some wrapping value is used in any other way."""
        tu = fr.tu
        if cond_node is None or not self.wrap_uses_are_quotients(cond_node, ws, s, fr):
            return None
        sites = {}
        for node, _text in ws:
            tr = type_range(tu.sd(node).get('ct'))
            if tr is None or tr[0] != 0:
                return None
            R = _Norm(self, s, fr).poly(node)
            ats = R.atoms(deep=False)
            if len(ats) != 1:
                return None
            lin = R.linear_in(ats[0])
            if lin is None or lin[1].as_int() != 0 or lin[0] <= 0 or lin[0].denominator != 1:
                return None
            sites[R] = (Poly.atom(ats[0]), int(lin[0]), tr[1])
        ok = [True]

        def rewrite(b):
            tag = b[0]
            if tag in ('and', 'or'):
                return (tag, rewrite(b[1]), rewrite(b[2]))
            if tag == 'not':
                return ('not', rewrite(b[1]))
            if tag != 'rel':
                return b
            r = b[1]
            for R, (a, bc, tmax) in sites.items():
                D = Poly.op('div', R, a).as_atom()
                sa = r.single_atom()
                if sa is not None and sa[0] == D:
                    _, k, c = sa

                    def holds(lo, hi, k=k, c=c, op=r.op):
                        vals = sorted((k * lo + c, k * hi + c))
                        if op == '>=':
                            return True if vals[0] >= 0 else False if vals[1] < 0 else None
                        if op == '==':
                            return True if vals[0] == vals[1] == 0 else False if (vals[0] > 0 or vals[1] < 0) else None
                        return False if vals[0] == vals[1] == 0 else True if (vals[0] > 0 or vals[1] < 0) else None
                    t0, t1 = holds(bc, bc), holds(0, bc - 1)
                    if t0 is None or t1 is None:
                        ok[0] = False
                        return b
                    wrapped = Rel.make(R, '>', tmax)
                    if t0 == t1:
                        return ('const', t0)
                    return ('rel', wrapped if t1 else wrapped.negate())
                if D in r.p.atoms(deep=True):
                    ok[0] = False       # the quotient is combined with something else: no exact reading
            return b
        out = nnf(rewrite(nf))
        return out if ok[0] else None

    def split_offset_wrap(self, cond, ws, s, fr):
        """The deliberate wrap idiom  `x - c >= K`  (one unsigned comparison for "x == 0 or x > K").  If the only arithmetic of
        the condition that can wrap is  W = x +/- c  (x one value with known bounds, c a constant) and W is directly one operand
        of the comparison that *is* the condition, with a constant on the other side, return [(state, normal form), ...]:
        the state restricted to the x that do not wrap together with the plain reading, and the state restricted to the x that
        wrap together with the reading shifted by 2^width.  None if the condition has any other shape."""
        tu = fr.tu
        if len({n['id'] for n, _ in ws}) != 1:
            return None
        W = ws[0][0]
        if W.get('kind') != 'BinaryOperator' or W.get('opcode') not in ('+', '-'):
            return None
        tr = type_range(tu.sd(W).get('ct'))
        if tr is None or tr[0] != 0:
            return None
        cs = tu.strip(cond)
        if cs is None or cs.get('kind') != 'BinaryOperator' or cs.get('opcode') not in ('==', '!=', '<', '<=', '>', '>='):
            return None
        ks = tu.kids(cs)
        sides = [tu.strip(k, casts=True) for k in ks]
        if sides[0] is not None and sides[0].get('id') == W['id']:
            wi = 0
        elif sides[1] is not None and sides[1].get('id') == W['id']:
            wi = 1
        else:
            return None
        # the other side must not contain wrapping arithmetic itself and must be a constant here
        K = self.val(ks[1 - wi], s, fr)
        if K.as_int() is None:
            return None
        R = _Norm(self, s, fr).poly(W)
        ats = R.atoms(deep=False)
        if len(ats) != 1:
            return None
        lin = R.linear_in(ats[0])
        if lin is None or lin[0] != 1 or lin[1].as_int() in (None, 0) or not self.factable(ats[0]):
            return None
        a, d = ats[0], lin[1].as_int()
        lo, hi = self.bounds(s, a)
        width = tr[1] + 1
        op = cs.get('opcode')
        mk = (lambda L: Rel.make(L, op, K)) if wi == 0 else (lambda L: Rel.make(K, op, L))
        out = []
        if d < 0:
            parts = [((max(lo, -d), hi), R), ((lo, min(hi, -d - 1)), R + width)]
        else:
            parts = [((lo, min(hi, tr[1] - d)), R), ((max(lo, tr[1] - d + 1), hi), R - width)]
        for (plo, phi), L in parts:
            if plo > phi:
                continue
            out.append((s.set(('fact', a), (plo, phi)), nnf(('rel', mk(L)))))
        return out

    def wrap_uses_are_quotients(self, cond, ws, s, fr):
        """AST check for explain_wrap_tests: inside the condition `cond` (following the initialisers of the locals it reads)
        every use of a wrapping product W = a*b - directly or through a local initialised with exactly W - is the dividend of
        `W / a`, and that quotient is compared with a constant."""
        tu = fr.tu
        wnodes = {n['id'] for n, _ in ws}
        skip = ('ImplicitCastExpr', 'ParenExpr', 'CStyleCastExpr', 'CXXStaticCastExpr', 'CXXFunctionalCastExpr', 'ExprWithCleanups',
                'MaterializeTemporaryExpr')

        def up(n):
            p = tu.par(n)
            while p is not None and p.get('kind') in skip:
                n, p = p, tu.par(p)
            return n, p

        def divisor_ok(w, div):
            # the divisor must be the non-constant factor of the product
            R = _Norm(self, s, fr).poly(w)
            ats = R.atoms(deep=False)
            return len(ats) == 1 and self.val(div, s, fr) == Poly.atom(ats[0])

        def context_ok(y, w):
            top, p = up(y)
            if p is None or p.get('kind') != 'BinaryOperator' or p.get('opcode') != '/':
                return False
            ks = tu.kids(p)
            if ks[0].get('id') != top.get('id') or not divisor_ok(w, ks[1]):
                return False
            qtop, gp = up(p)
            if gp is None or gp.get('kind') != 'BinaryOperator' or gp.get('opcode') not in ('==', '!=', '<', '<=', '>', '>='):
                return False
            other = [k for k in tu.kids(gp) if k.get('id') != qtop.get('id')]
            return len(other) == 1 and self.val(other[0], s, fr).as_int() is not None

        carriers = {}           # decl id of a local whose initialiser is exactly a wrapping product -> that product node
        todo, seen, roots = [cond], set(), []
        while todo and len(seen) < 40:
            x = todo.pop()
            if x is None or x['id'] in seen:
                continue
            seen.add(x['id'])
            roots.append(x)
            for y in tu.walk(x):
                if y.get('kind') == 'DeclRefExpr':
                    did = y.get('referencedDecl', {}).get('id')
                    iid = s.get(('init', fr.key, did))
                    if iid is not None:
                        init = tu.node(iid)
                        st = tu.strip(init, casts=True) if init is not None else None
                        if st is not None and st.get('id') in wnodes:
                            carriers[did] = st
                        else:
                            todo.append(init)
        by_id = {n['id']: n for n, _ in ws}
        for x in roots:
            for y in tu.walk(x):
                if y.get('id') in wnodes:
                    if not context_ok(y, by_id[y['id']]):
                        return False
                elif y.get('kind') == 'DeclRefExpr' and y.get('referencedDecl', {}).get('id') in carriers:
                    if not context_ok(y, carriers[y['referencedDecl']['id']]):
                        return False
        return True

    def tracked(self, s, poly_or_nf):
        """does the value mention an atom that carries a fact in s?"""
        facts = {k[1] for k in s.d if isinstance(k, tuple) and k[0] == 'fact'}
        if not facts:
            return False

        def rec(x):
            if isinstance(x, Poly):
                return any(a in facts or rec(a) for a in x.atoms(deep=False))
            if isinstance(x, Rel):
                return rec(x.p)
            if isinstance(x, tuple):
                return x in facts or any(rec(y) for y in x)
            return False
        return rec(poly_or_nf)

    def add_facts(self, b, want, s, fr, node):
        """states for the edge on which Boolean normal form `b` has the value `want` ([] = infeasible)"""
        tag = b[0]
        bnd = lambda a: self.bounds(s, a)
        if tag == 'const':
            return [s] if b[1] == want else []
        if tag == 'rel':
            r = b[1] if want else b[1].negate()
            sa = r.single_atom()
            if sa is not None and self.factable(sa[0]):
                atom, a, c = sa
                if r.op == '!=':
                    v = -c / a
                    lo, hi = bnd(atom)
                    if v.denominator != 1 or v < lo or v > hi:
                        return [s]
                    out = []
                    if lo <= v - 1:
                        out.append(s.set(('fact', atom), (lo, v - 1)))
                    if v + 1 <= hi:
                        out.append(s.set(('fact', atom), (v + 1, hi)))
                    return out
                atom, (lo, hi) = r.tighten(bnd, True)
                if lo > hi:
                    return []
                return self.propagate(s.set(('fact', atom), (lo, hi)), atom, lo, hi)
            s = s.set(('pc', r), True)       # path constraint: known to hold on this path, not used for refinement
            if self.tracked(s, r):
                return [s.approx('condition `%s` at %s is not a linear comparison of one value' % (fr.tu.show(node), fr.tu.loc(node)))]
            return [s]
        if tag in ('and', 'or'):
            conj = (tag == 'and') == want       # and/True or or/False: both operands get the truth value `want`
            if conj:
                out = []
                for s2 in self.add_facts(b[1], want, s, fr, node):
                    for s3 in self.add_facts(b[2], want, s2, fr, node):
                        if s3 not in out:
                            out.append(s3)
                return out
            x, y = decide_bool(b[1], bnd), decide_bool(b[2], bnd)
            # and/False (or or/True): at least one operand has value `want`; informative only if the other is decided
            if x is not None and x != want:
                return self.add_facts(b[2], want, s, fr, node)
            if y is not None and y != want:
                return self.add_facts(b[1], want, s, fr, node)
            # absorption: if one operand having the value (not want) forces the other to have it too, the whole expression is
            # equivalent to that operand   (A && B with B => A is B;  A || B with A => B is B)
            for u, v in ((b[1], b[2]), (b[2], b[1])):
                sts = self.add_facts(u, not want, s, fr, node)
                if sts and all(not st.get('approx', ()) or st.get('approx', ()) == s.get('approx', ()) for st in sts) and \
                        all(decide_bool(v, lambda a, st=st: self.bounds(st, a)) == (not want) for st in sts):
                    return self.add_facts(u, want, s, fr, node)
            if self.tracked(s, b):
                return [s.approx('disjunctive condition `%s` at %s' % (fr.tu.show(node), fr.tu.loc(node)))]
            return [s]
        return [s]

    def propagate(self, s, atom, lo, hi):
        """consequences of lo <= atom <= hi for the operands of a min / max atom ([] = infeasible)"""
        if not (isinstance(atom, tuple) and atom and atom[0] in ('min', 'max') and len(atom) == 3):
            return [s]
        ops = [x for x in atom[1:] if isinstance(x, Poly)]
        if len(ops) != 2:
            return [s]
        bnd = lambda a: self.bounds(s, a)
        for me, other in ((ops[0], ops[1]), (ops[1], ops[0])):
            a = me.as_atom()
            if a is None or not self.factable(a):
                continue
            alo, ahi = bnd(a)
            olo, ohi = other.range(bnd)
            if atom[0] == 'min':
                alo = max(alo, lo)                 # min >= lo  =>  both operands >= lo
                if olo > hi:
                    ahi = min(ahi, hi)             # the other operand exceeds hi, so this one is the minimum
            else:
                ahi = min(ahi, hi)
                if ohi < lo:
                    alo = max(alo, lo)
            if alo > ahi:
                return []
            if (alo, ahi) != bnd(a):
                s = s.set(('fact', a), (alo, ahi))
        return [s]

    @staticmethod
    def factable(atom):
        return not (isinstance(atom, tuple) and atom and atom[0] in ('volatile', 'unk', 'widen'))

    # ------------------------------------------------------------------ statements
    def transfer(self, blk, e, s, fr):
        tu = fr.tu
        if e[0] == 'S':
            n = tu.node(e[1])
            if n is None:
                return [s]
            k = n.get('kind')
            if k in CALLS:
                return self.do_call(n, s, fr)
            if k == 'DeclStmt':
                for v in tu.kids(n):
                    if v.get('kind') != 'VarDecl':
                        continue
                    if v.get('storageClass') == 'static' or v.get('tls') is not None:
                        continue        # initialised once, persists across calls: a memory location, not a local
                    ks = tu.kids(v)
                    if v.get('init') and ks:
                        s = s.set(('env', fr.key, v['id']), self.val(ks[-1], s, fr))
                        # remember the initialiser: unsigned arithmetic in it is checked for wrapping where the variable is
                        # *used* (under the facts of that path), not where it is computed
                        s = s.set(('init', fr.key, v['id']), ks[-1]['id'])
                    else:
                        s = s.set(('env', fr.key, v['id']), Poly.atom(('uninit', fr.key, v['id'], v.get('name'))))
                return [s]
            if k == 'BinaryOperator' and n.get('opcode') == '=':
                ks = tu.kids(n)
                v = self.val(ks[1], s, fr)
                lt = tu.strip(ks[0], casts=True)
                did = lt.get('referencedDecl', {}).get('id') if lt is not None and lt.get('kind') == 'DeclRefExpr' else None
                selfref = did is not None and any(y.get('kind') == 'DeclRefExpr' and y.get('referencedDecl', {}).get('id') == did
                                                  for y in tu.walk(ks[1]))
                if selfref:
                    s = self.note_wraps(ks[1], s, fr)      # x = f(x): cannot be re-examined later, check under the facts known here
                s2 = self.assign(ks[0], v, s, fr, blk, n)
                if did is not None and not selfref and ('env', fr.key, did) in s2.d and blk.id not in fr.cyclic:
                    s2 = s2.set(('init', fr.key, did), ks[1]['id'])
                return [s2]
            if k == 'CompoundAssignOperator':
                ks = tu.kids(n)
                a, b = self.val(ks[0], s, fr), self.val(ks[1], s, fr)
                op = n.get('opcode', '')[:-1]
                from .x_expr import ARITH
                v = a + b if op == '+' else a - b if op == '-' else a * b if op == '*' else \
                    Poly.op(ARITH[op], a, b) if op in ARITH else Poly.atom(('unk', 'compound', tu.show(n)))
                return [self.assign(ks[0], v, s, fr, blk, n)]
            if k == 'UnaryOperator' and n.get('opcode') in ('++', '--'):
                ks = tu.kids(n)
                v = self.val(ks[0], s, fr)
                return [self.assign(ks[0], v + 1 if n['opcode'] == '++' else v - 1, s, fr, blk, n)]
            if k == 'ReturnStmt':
                ks = tu.kids(n)
                if ks:
                    s = self.note_wraps(ks[0], s, fr)
                    if (fr.fn.get('fty') or '').split('(')[0].rstrip().endswith('&'):
                        rl = self.loc_of(ks[0], s, fr)        # returns a reference: remember which location it designates
                        if rl is not None and rl[0] != 'envvar':
                            s = s.set('$retloc', rl)
                    return [s.set('$ret', self.val(ks[0], s, fr))]
                return [s]
            if k == 'CXXThrowExpr':
                return [s.event(('throw', tu.sd(n).get('tty', '?'), tu.loc(n))).set('$thrown', True)]
            if k == 'CXXNewExpr' and tu.sd(n).get('nplace', 0) >= 1:
                sdn = tu.sd(n)
                where = tuple(self.val(tu.node(i), s, fr) for i in sdn.get('pargs', []) if tu.node(i) is not None)
                init = tu.node(sdn.get('init')) if sdn.get('init') else None
                src = ()
                if init is not None:
                    ist = tu.strip(init)
                    if ist is not None and ist.get('kind') in ('CXXConstructExpr', 'CXXTemporaryObjectExpr'):
                        src = tuple(self.val(a, s, fr) for a in tu.kids(ist))
                    elif ist is not None and ist.get('kind') in ('ParenListExpr', 'InitListExpr'):
                        src = tuple(self.val(a, s, fr) for a in tu.kids(ist))
                    else:
                        src = (self.val(init, s, fr),)
                return [s.event(('placement-new', sdn.get('aty', '?'), where, src, tu.loc(n)))]
            return [s]
        if e[0] == 'AD':
            # end of scope of a local: unique_ptr locals destroy their pointee, class objects run their destructor
            ty = (e[3] or '').replace('const ', '')
            cur = s.get(('env', fr.key, e[1]))
            if cur is None:
                return [s]
            if ty.startswith('std::unique_ptr<'):
                T = _first_targ(ty)
                return self.destroy_pointee(T, cur, s, fr, tu.fn_loc(fr.fn)) if T else [s]
            if self.dtor_effect(ty):
                return self.run_dtor(ty, cur, s, fr, tu.fn_loc(fr.fn))
            return [s]
        if e[0] == 'MD' and fr.this is not None:
            # implicit member destruction at the end of a destructor
            rec = tu.records.get(fr.fn.get('recid'))
            fld = next((x for x in (rec or {}).get('fields', []) if x.get('id') == e[1] or x.get('name') == e[2]), None)
            if fld is None:
                return [s]
            ty = (fld.get('ct') or '').replace('const ', '')
            this = fr.this.as_atom()
            loc = ('field', this if this is not None else ('expr', fr.this), fld['name'])
            if ty.startswith('std::unique_ptr<'):
                T = _first_targ(ty)
                return self.destroy_pointee(T, self.load(loc, s, ty), s, fr, tu.fn_loc(fr.fn)) if T else [s]
            if self.dtor_effect(ty):
                return self.run_dtor(ty, Poly.atom(loc), s, fr, tu.fn_loc(fr.fn))
            return [s]
        if e[0] == 'I':
            name = e[3]
            if name == '<base>' or fr.this is None:
                return [s]
            init = tu.node(e[1])
            v = self.val(init, s, fr) if init is not None else Poly.atom(('unk', 'init'))
            if init is not None and init.get('kind') == 'CXXDefaultInitExpr':
                fd = tu.node(e[2])
                ks = tu.kids(fd) if fd else []
                if ks:
                    v = self.val(ks[-1], s, fr)
            this = fr.this.as_atom()
            loc = ('field', this if this is not None else ('expr', fr.this), name)
            return [s.set(('mem', loc), v).event(('store', loc, v, tu.loc(e[1])))]
        return [s]

    def assign(self, lhs, v, s, fr, blk, node):
        tu = fr.tu
        loc = self.loc_of(lhs, s, fr)
        if loc is None:
            return s.approx('assignment to `%s` at %s is not modelled' % (tu.show(lhs), tu.loc(node)))
        if blk is not None and blk.id in fr.cyclic and not v.is_const():
            a = ('widen', loc)
            s = s.drop(lambda k: k == ('fact', a))
            self.set_default(a, tu.sd(lhs).get('ct'))
            self._widen_hint(a, lhs, v, s, fr, node)
            v = Poly.atom(a)
        elif blk is not None and blk.id in fr.cyclic and loc[0] == 'envvar':
            # a constant assigned in a loop is fine, but a counter (x = x + 1 folded to constants) must not unroll
            old = s.get(('env', loc[1], loc[2]))
            if old is not None and old.is_const() and old != v:
                a = ('widen', loc)
                s = s.drop(lambda k: k == ('fact', a))
                self.set_default(a, tu.sd(lhs).get('ct'))
                self._widen_hint(a, lhs, v, s, fr, node)
                v = Poly.atom(a)
        if loc[0] == 'envvar':
            s = s.drop(lambda k: isinstance(k, tuple) and k[0] == 'init' and k[1] == loc[1])
            lt = tu.strip(lhs, casts=True)
            ty = (lt.get('type', {}).get('qualType', '') if lt else '')
            rd = lt.get('referencedDecl', {}) if lt else {}
            if rd.get('type', {}).get('qualType', '').rstrip().endswith('&') and s.get(('refloc', fr.key, rd.get('id'))) is None:
                s = s.approx('assignment through reference `%s` at %s is not modelled' % (tu.show(lhs), tu.loc(node)))
            return s.set(('env', loc[1], loc[2]), v)
        if loc[0] in ('deref', 'elem'):
            s = s.approx('store through pointer `%s` at %s is not modelled' % (tu.show(lhs), tu.loc(node))) \
                if self.tracked(s, v) else s
            return s.set(('mem', loc), v)
        return s.set(('mem', loc), v).event(('store', loc, v, tu.loc(node)))

    # ------------------------------------------------------------------ destructors
    def find_dtor(self, T):
        for ti, t in enumerate(self.tus):
            for f in t.functions.values():
                if f.get('dtor') and not f['dep'] and t.cfg(f) is not None and \
                        (f.get('rect') == T or (f.get('rect') or '').endswith('::' + T)):
                    return ti, t, f
        return None

    def dtor_effect(self, T, depth=0):
        """can destroying a T run user-written code that rkcommon defines (its destructor or a member's)?"""
        memo = self.__dict__.setdefault('_dtor_memo', {})
        if T in memo:
            return memo[T]
        memo[T] = False
        d = self.find_dtor(T)
        res = False
        if d is not None and not d[2].get('implicit') and not d[2].get('defaulted'):
            res = True
        elif depth < 4:
            for t in self.tus:
                rec = t.records_by_type.get(T) or next((r for r in t.records.values() if r['type'].endswith('::' + T)), None)
                if rec is None:
                    continue
                for fld in rec.get('fields', []):
                    ty = (fld.get('ct') or '').replace('const ', '')
                    inner = _first_targ(ty) if ty.startswith('std::unique_ptr<') else ty
                    if inner and self.dtor_effect(inner, depth + 1):
                        res = True
                break
        memo[T] = res
        return res

    def destroy_pointee(self, T, old, s, fr, loc):
        """the object `old` (held by a unique_ptr<T>) is destroyed; -> states"""
        if old is None or not self.dtor_effect(T):
            return [s]
        lo, hi = old.range(lambda a: self.bounds(s, a))
        if hi <= 0:
            return [s]
        a = old.as_atom()
        if lo <= 0 and a is not None and self.factable(a):
            s_null = s.set(('fact', a), (0, 0))
            s_live = s.set(('fact', a), (1, hi))
            return [s_null] + self.run_dtor(T, old, s_live, fr, loc)
        return self.run_dtor(T, old, s, fr, loc)

    def run_dtor(self, T, this, s, fr, loc):
        d = self.find_dtor(T)
        if d is None or fr.depth >= self.MAX_DEPTH:
            return [s]
        ti2, tu2, f2 = d
        fr2 = Frame(ti2, tu2, f2, this, fr.depth + 1, fr)
        f = fr
        while f is not None:
            if f.key == fr2.key:
                return [s]
            f = f.parent
        if self.api(f2['q']):
            return [s.event(('call', f2['q'], this, (), loc))]
        n_before = len([e for e in s.get('ev', ()) if e[0] == 'destroy'])
        s = s.event(('destroy', T, this, loc, n_before))
        return [s3.event(('destroy-end', T, this, loc, n_before)) for (s3, _rv) in self.run_fn(fr2, s)]

    def _widen_hint(self, a, lhs, v, s, fr, node):
        """A loop variable that is only ever updated by  x /= c, x >>= c, x -= c  (c a positive constant, x unsigned) never
        exceeds the value it had after the first update: give the widened value that upper bound.  Any other kind of update
        of the same variable removes the hint."""
        tu = fr.tu
        info = self.__dict__.setdefault('_widen_info', {}).setdefault(a, {'mono': True, 'ub': None})
        mono = False
        if node is not None and node.get('kind') == 'CompoundAssignOperator' and node.get('opcode') in ('/=', '>>=', '-=') and \
                is_unsigned(tu.sd(lhs).get('ct')):
            ks = tu.kids(node)
            c = self.val(ks[1], s, fr).as_int() if len(ks) == 2 else None
            mono = c is not None and c >= (1 if node.get('opcode') == '/=' else 0)
        if not mono:
            info['mono'] = False
        else:
            _lo, hi = v.range(lambda x: self.bounds(s, x))
            if hi == INF:
                info['mono'] = False
            else:
                info['ub'] = hi if info['ub'] is None else max(info['ub'], hi)
        tr = type_range(tu.sd(lhs).get('ct'))
        if info['mono'] and info['ub'] is not None:
            self.defbounds[a] = (0, info['ub'])
        elif tr is not None:
            self.defbounds[a] = tr

    def note_wraps(self, n, s, fr):
        for (wn, text) in self.wrap_sites(n, s, fr):
            s = s.event(('wrap', text, fr.tu.loc(wn)))
        return s

    # ------------------------------------------------------------------ calls
    def ctor_this(self, n, s, fr):
        """identity of the object a CXXConstructExpr initialises"""
        tu = fr.tu
        tgt = fr.targets.get(n['id'])
        if tgt is None:
            # the initialiser may be wrapped (ExprWithCleanups ...)
            p = tu.par(n)
            hops = 0
            while p is not None and hops < 4 and p.get('kind') in ('ExprWithCleanups', 'CXXBindTemporaryExpr',
                                                                   'MaterializeTemporaryExpr', 'ImplicitCastExpr'):
                tgt = fr.targets.get(p['id'])
                if tgt is not None:
                    break
                p = tu.par(p)
                hops += 1
        if tgt is not None and fr.this is not None:
            if tgt == '<base>':
                return fr.this
            this = fr.this.as_atom()
            return Poly.atom(('field', this if this is not None else ('expr', fr.this), tgt))
        p = tu.par(n)
        hops = 0
        while p is not None and hops < 4 and p.get('kind') in ('ExprWithCleanups', 'CXXBindTemporaryExpr',
                                                               'MaterializeTemporaryExpr', 'ImplicitCastExpr'):
            p = tu.par(p)
            hops += 1
        if p is not None and p.get('kind') == 'CXXNewExpr':
            return Poly.atom(('new', tu.sd(p).get('aty', '?'), '%s#%s' % (fr.key, p['id'])))
        if p is not None and p.get('kind') == 'VarDecl':
            return Poly.atom(('local', fr.key, p['id'], p.get('name')))
        return Poly.atom(('temp', fr.key, n['id']))

    def do_call(self, n, s, fr):
        tu = fr.tu
        k = n.get('kind')
        sd, obj, args = tu.call_parts(n)
        q = sd.get('q', '')
        name = q.rsplit('::', 1)[-1] if '::' in q else q
        is_ctor = k in ('CXXConstructExpr', 'CXXTemporaryObjectExpr')
        rkey = ('ret', fr.key, n['id'])
        for a in args:
            s = self.note_wraps(a, s, fr)
        argv = tuple(self.val(a, s, fr) for a in args)
        loc = tu.loc(n)

        if q in IDENTITY_FNS and argv:
            return [s.set(rkey, argv[0])]
        if q in ('std::min', 'std::max') and len(argv) == 2:
            rng = [v.range(lambda a: self.bounds(s, a)) for v in argv]
            name = q[5:]
            # decided by the intervals?
            if name == 'min' and rng[0][1] <= rng[1][0] or name == 'max' and rng[0][0] >= rng[1][1]:
                return [s.set(rkey, argv[0])]
            if name == 'min' and rng[1][1] <= rng[0][0] or name == 'max' and rng[1][0] >= rng[0][1]:
                return [s.set(rkey, argv[1])]
            return [s.set(rkey, Poly.op(name, argv[0], argv[1]))]

        if q in ('std::operator==', 'std::operator!=') and len(argv) == 2 and \
                any((tu.sd(a).get('ct') or '').replace('const ', '').startswith(SMART) for a in args):
            # comparison of a smart pointer with nullptr / another pointer
            for v in argv:
                a = v.as_atom()
                if a is not None and not (isinstance(a, tuple) and a and a[0] in ('new', 'local', 'temp', 'this')):
                    self.set_default(a, 'void *')
            b = nnf(('rel', Rel.make(argv[0], q[-2:], argv[1])))
            return [s.set(rkey, Poly.const(1 if b[1] else 0) if b[0] == 'const' else Poly.atom(('bool', b)))]

        if q in ('std::swap',) and len(args) == 2 and \
                all((tu.sd(a).get('ct') or '').replace('const ', '').startswith(SMART) for a in args):
            la, lb = self.loc_of(args[0], s, fr), self.loc_of(args[1], s, fr)
            if la is None or lb is None:
                return [s.approx('smart pointer swap at %s is not modelled' % loc)]
            s = self.assign(args[0], argv[1], s, fr, None, n)
            s = self.assign(args[1], argv[0], s, fr, None, n)
            return [s.set(rkey, Poly.atom(('void',)))]

        # ---- std::make_unique<T>(args...) / std::make_shared<T>(args...)  ==  smart pointer to  new T(args...)
        if q in ('std::make_unique', 'std::make_shared') and not is_ctor:
            T = _first_targ(sd.get('ct', ''))
            if T:
                this = Poly.atom(('new', T, '%s#%s' % (fr.key, n['id'])))
                cands = []
                for ti, t in enumerate(self.tus):
                    for f in t.functions.values():
                        if f.get('ctor') and not f['dep'] and f.get('rect') == T and len(f.get('params', [])) == len(argv) \
                                and t.cfg(f) is not None:
                            cands.append((ti, t, f))
                if len(cands) == 1 and fr.depth < self.MAX_DEPTH and not self.api(cands[0][2]['q']):
                    ti2, tu2, f2 = cands[0]
                    fr2 = Frame(ti2, tu2, f2, this, fr.depth + 1, fr)
                    s2 = s
                    for p, v in zip(f2.get('params', []), argv):
                        s2 = s2.set(('env', fr2.key, p['id']), v)
                    return [s3.set(rkey, this) for (s3, _rv) in self.run_fn(fr2, s2)]
                cq = '%s::%s' % (T, T.split('<')[0].rsplit('::', 1)[-1])
                return [s.event(('call', cq, this, argv, loc)).set(rkey, this)]

        # ---- std::atomic<T> as a cell holding a T (sequential model: this analysis does not reason about interleavings)
        if sd.get('rec') in ('std::atomic', 'std::__atomic_base', 'std::atomic_flag'):
            if is_ctor:
                return [s.set(rkey, argv[0] if len(argv) == 1 else Poly.const(0))]
            cell = self.loc_of(obj, s, fr) if obj is not None else None
            if cell is not None and (name.startswith('operator ') or name == 'load'):
                return [s.set(rkey, self.val(obj, s, fr))]
            if cell is not None and name in ('operator=', 'store') and argv:
                s = self.assign(obj, argv[0], s, fr, None, n)
                return [s.set(rkey, argv[0])]
            if cell is not None and name == 'test_and_set':
                cur = self.val(obj, s, fr)
                s = self.assign(obj, Poly.const(1), s, fr, None, n)
                a0 = cur.as_atom()
                if a0 is not None:
                    self.defbounds.setdefault(a0, (0, 1))
                return [s.set(rkey, cur)]
            if cell is not None and name == 'clear':
                s = self.assign(obj, Poly.const(0), s, fr, None, n)
                return [s.set(rkey, Poly.atom(('void',)))]
            if cell is not None and name == 'exchange' and argv:
                cur = self.val(obj, s, fr)
                s = self.assign(obj, argv[0], s, fr, None, n)
                return [s.set(rkey, cur)]

        # ---- smart pointers as pointer cells
        if sd.get('rec') in SMART:
            keep = [i for i, a in enumerate(args) if (tu.strip(a) or {}).get('kind') != 'CXXDefaultArgExpr']
            if len(keep) != len(args):      # reset() == reset(pointer()): defaulted arguments are "no argument"
                args = [args[i] for i in keep]
                argv = tuple(argv[i] for i in keep)
            if len(args) == 1 and (is_ctor or name == 'operator='):
                src = tu.strip(args[0])
                if src is not None and src.get('kind') == 'CallExpr' and tu.sd(src).get('q') == 'std::move':
                    inner = tu.kids(src)[1:] if len(tu.kids(src)) > 1 else []
                    if inner and (tu.sd(inner[0]).get('ct') or '').replace('const ', '').startswith(SMART) and \
                            self.loc_of(inner[0], s, fr) is not None:
                        # unique_ptr(std::move(cell)) / = std::move(cell): the source cell gives up its pointer
                        moved = argv[0]
                        s = self.assign(inner[0], Poly.const(0), s, fr, None, n)
                        argv = (moved,)
            if is_ctor:
                if not argv:
                    v = Poly.const(0)
                elif len(argv) == 1:
                    v = argv[0]
                else:
                    v = argv[0]     # (pointer, deleter)
                return [s.set(rkey, v)]
            cell = self.loc_of(obj, s, fr) if obj is not None else None
            cur = self.val(obj, s, fr) if obj is not None else Poly.atom(('unk', 'smart-pointer'))
            a = cur.as_atom()
            if a is not None and not (isinstance(a, tuple) and a and a[0] in ('new', 'local', 'temp', 'this')):
                self.set_default(a, 'void *')
            if name in ('get', 'operator bool'):
                return [s.set(rkey, cur)]
            if name in ('operator->', 'operator*'):
                lo, hi = cur.range(lambda x: self.bounds(s, x))
                if hi == 0:
                    s = s.event(('nullderef', tu.show(obj), loc))
                elif lo <= 0:
                    s = s.event(('maybe-null-deref', a if a is not None else tu.show(obj), loc))
                return [s.set(rkey, cur)]
            if name in ('operator=', 'reset'):
                v = argv[0] if argv else Poly.const(0)
                if cell is None:
                    return [s.approx('smart pointer assignment to `%s` at %s is not modelled' % (tu.show(obj), loc))]
                s = self.assign(obj, v, s, fr, None, n)
                s = s.set(rkey, v)
                # reset semantics: the new pointer is installed first, then the previous pointee is destroyed
                T = _first_targ((tu.sd(obj).get('ct') or '').replace('const ', ''))
                if sd.get('rec') == 'std::unique_ptr' and T and cur != v:
                    return self.destroy_pointee(T, cur, s, fr, loc)
                return [s]
            if name == 'release':
                if cell is not None:
                    s = self.assign(obj, Poly.const(0), s, fr, None, n)
                return [s.set(rkey, cur)]
            if name == 'swap' and len(args) == 1:
                # a.swap(b): the two cells exchange their pointers (nothing is destroyed)
                other = self.loc_of(args[0], s, fr)
                if cell is None or other is None:
                    return [s.approx('smart pointer swap at %s is not modelled' % loc)]
                s = self.assign(obj, argv[0], s, fr, None, n)
                s = self.assign(args[0], cur, s, fr, None, n)
                return [s.set(rkey, Poly.atom(('void',)))]

        objv = None
        if obj is not None:
            objv = self.val(obj, s, fr)
        if is_ctor:
            objv = self.ctor_this(n, s, fr)

        # ---- declared APIs and hardware queries: events, never inlined
        if self.hw(q):
            a = ('hw', q, '%s#%s' % (fr.key, n['id']))
            self.defbounds.setdefault(a, self.hw_bounds)
            s = s.drop(lambda kk: kk == ('fact', a))
            return [s.event(('call', q, objv, argv, loc)).set(rkey, Poly.atom(a))]
        api_sig = getattr(self, 'api_sig', None)      # optional: (q, signature) -> bool, for overloads that share a name
        is_api = self.api(q) or bool(api_sig and api_sig(q, sd.get('fty')))
        body = None if is_api else self.find_body(fr, n)
        if body is None or fr.depth >= self.MAX_DEPTH:
            for i, av in enumerate(argv):
                aa = av.as_atom()
                if isinstance(aa, tuple) and aa and aa[0] == 'addr' and not is_ctor:
                    oa = ('out', q, i, '%s#%s' % (fr.key, n['id']))
                    self.set_default(oa, 'void *')
                    s = s.drop(lambda kk: kk == ('fact', oa)).set(('env', aa[1], aa[2]), Poly.atom(oa))
            a = ('call', q, objv, argv, '%s#%s' % (fr.key, n['id']))
            self.set_default(a, sd.get('ct'))
            s = s.drop(lambda kk: kk == ('fact', a))
            rv = objv if is_ctor else Poly.atom(a)
            if is_ctor and len(argv) == 1 and not self.api(q) and _same_type(sd.get('cty'), tu.sd(args[0]).get('ct')):
                rv = argv[0]     # copy / move construction of a value we do not model: pass the value through
                return [s.set(rkey, rv)]
            return [s.event(('call', q, objv, argv, loc)).set(rkey, rv)]

        # ---- inline
        ti2, tu2, f2 = body
        fr2 = Frame(ti2, tu2, f2, objv, fr.depth + 1, fr)
        f = fr
        while f is not None:
            if f.key == fr2.key:
                return [s.approx('recursive call to %s at %s is not followed' % (q, loc)).set(rkey, Poly.atom(('unk', 'recursion', q)))]
            f = f.parent
        s2 = s
        for i, (p, v) in enumerate(zip(f2.get('params', []), argv)):
            pct = (p.get('ct') or '').rstrip()
            al = self.loc_of(args[i], s, fr) if (pct.endswith('&') and not pct.endswith('&&') and not pct.startswith('const ')
                                                 and i < len(args)) else None
            if al is not None and al[0] in ('envvar', 'glob', 'field'):
                # non-const lvalue reference parameter: reads and writes in the callee go to the caller's location
                s2 = s2.set(('refloc', fr2.key, p['id']), al)
            else:
                s2 = s2.set(('env', fr2.key, p['id']), v)
        outs = self.run_fn(fr2, s2)
        res = []
        for (s3, rv) in outs:
            if is_ctor:
                rv = objv
            elif rv is None:
                rv = Poly.atom(('void',))
            rl = s3.get('$retloc')
            if rl is not None:
                s3 = s3.drop(lambda kk: kk == '$retloc').set(('retloc', fr.key, n['id']), rl)
            s3 = s3.set(rkey, rv)
            if s3 not in res:
                res.append(s3)
        return res


def _first_targ(ct):
    """first template argument of a canonical type such as std::unique_ptr<X<int>, std::default_delete<X<int>>>"""
    i = ct.find('<')
    if i < 0:
        return None
    depth = 0
    for j in range(i, len(ct)):
        c = ct[j]
        if c == '<':
            depth += 1
        elif c == '>':
            depth -= 1
            if depth == 0:
                return ct[i + 1:j].strip()
        elif c == ',' and depth == 1:
            return ct[i + 1:j].strip()
    return None


def is_assert_path(p):
    """a terminated path that ends in the failure branch of assert()"""
    calls = [e for e in p.events if e[0] == 'call']
    return p.kind == 'noreturn' and bool(calls) and calls[-1][1] in ('__assert_fail', '__assert', '__assert_rtn', '_wassert',
                                                                       '__assert_perror_fail')


def _sig(fty):
    return (fty or '').replace(' ', '').replace('noexcept', '')


def _same_type(a, b):
    def n(t):
        return (t or '').replace('const ', '').replace('&', '').replace(' ', '')
    return bool(a) and n(a) == n(b)


def strip_site(v):
    """value with call / hw / new sites removed, for comparing values against an expected shape"""
    if isinstance(v, Poly):
        a = v.as_atom()
        if a is not None:
            return strip_site(a)
        return v
    if isinstance(v, tuple) and v:
        if v[0] == 'call' and len(v) == 5:
            return ('call', v[1], strip_site(v[2]), tuple(strip_site(x) for x in v[3]))
        if v[0] == 'hw':
            return ('hw', v[1])
        if v[0] == 'out':
            return ('out', v[1], v[2])
        if v[0] == 'addr':
            return ('addr', v[3])
        if v[0] == 'new':
            return ('new', v[1])
        if v[0] == 'conv':
            return strip_site(v[2])
        return v
    return v


def show_val(v):
    if v is None:
        return 'nothing'
    if isinstance(v, Poly):
        return v.show()
    if isinstance(v, tuple):
        return show_atom(v)
    return str(v)
