"""Expression normal forms for the math headers (shared by rules/C04.py and rules/C05.py).

Everything here is syntactic/static: clang AST (dependent template patterns *and* typed instantiations)
-> small hashable terms -> canonical forms:

  * `FnView(tu, f)`      term view of one function: parameters by index, substitutable locals inlined,
                         statements as tuples, constructor initialisers.
  * `Poly`               commutative-ring normal form (exact rationals) of a term over opaque atoms.
  * `truth_table`        canonical Boolean form of a formula over order atoms (`l < r`, `l == r`, ...) and
                         opaque Boolean atoms: the reduced truth table over the order relation of every
                         compared pair (only assignments realisable in a total order are kept).
  * type helpers         `tparse/tkey/vecshape/rangearg` for canonical type strings of vec_t / range_t.

Terms (tuples):
  ('p', i) parameter i | ('this',) | ('m', base, name) member | ('u', op, a) | ('b', op, a, b)
  ('asg', op, lhs, rhs) | ('?:', c, a, b) | ('call', name, args) | ('mcall', name, obj, args)
  ('ctor', typekey, args) | ('lit', Fraction|bool) | ('str', s) | ('g', name) | ('tp', name)
  ('v', name) non-substitutable local | ('idx', base, i) | ('?', what) not understood
"""
import itertools
import re
from fractions import Fraction

COMPS = ('x', 'y', 'z', 'w')
TRANSPARENT = {'ImplicitCastExpr', 'ParenExpr', 'ExprWithCleanups', 'MaterializeTemporaryExpr',
               'CXXBindTemporaryExpr', 'ConstantExpr', 'SubstNonTypeTemplateParmExpr', 'FullExpr'}
CASTS = {'CStyleCastExpr', 'CXXStaticCastExpr', 'CXXReinterpretCastExpr', 'CXXConstCastExpr',
         'CXXFunctionalCastExpr'}
FN_DECLS = ('FunctionDecl', 'CXXMethodDecl', 'CXXConstructorDecl', 'CXXDestructorDecl', 'CXXConversionDecl')


# ============================================================================================
#  types
# ============================================================================================
def _split_top(s):
    out, depth, cur = [], 0, ''
    for ch in s:
        if ch in '<([':
            depth += 1
        elif ch in '>)]':
            depth -= 1
        if ch == ',' and depth == 0:
            out.append(cur.strip())
            cur = ''
        else:
            cur += ch
    if cur.strip():
        out.append(cur.strip())
    return out


def tclean(ct):
    """strip cv/ref qualifiers and the rkcommon::math:: prefix from a canonical type string"""
    if ct is None:
        return ''
    s = ct.strip()
    changed = True
    while changed:
        changed = False
        for pre in ('const ', 'volatile ', 'struct ', 'class ', 'typename '):
            if s.startswith(pre):
                s = s[len(pre):]
                changed = True
        for suf in ('&&', '&', ' const'):
            if s.endswith(suf):
                s = s[:-len(suf)].strip()
                changed = True
    return s.replace('rkcommon::math::', '')


def tclean_const(qt):
    """is the (written) type const-qualified at top level?"""
    qt = (qt or '').strip()
    return qt.startswith('const ') or qt.endswith(' const')


def tparse(ct):
    """('name', [args]) for a template-id, ('name', None) otherwise"""
    s = tclean(ct)
    m = re.match(r'^([\w:]+)\s*<(.*)>$', s, re.S)
    if not m:
        return (s, None)
    return (m.group(1), _split_top(m.group(2)))


def vecshape(ct):
    """{'elem','n','a'} if ct is (a reference to) a vec_t, else None.  n: int or template-parameter name,
    a: True/False or template-parameter name."""
    name, args = tparse(ct)
    if name != 'vec_t' or not args or len(args) < 2:
        return None
    n = args[1]
    try:
        n = int(n)
    except ValueError:
        pass
    a = args[2] if len(args) > 2 else 'false'
    a = {'false': False, 'true': True, '0': False, '1': True}.get(a, a)
    return {'elem': tclean(args[0]), 'n': n, 'a': a}


def rangearg(ct):
    """bound type string if ct is a range_t<...>, else None"""
    name, args = tparse(ct)
    if name != 'range_t' or not args:
        return None
    return args[0]


def tkey(ct):
    """compact canonical key of a type (vec_t's SFINAE argument dropped)"""
    name, args = tparse(ct)
    if args is None:
        return name
    if name == 'vec_t':
        sh = vecshape(ct)
        if sh:
            return 'vec_t<%s,%s,%s>' % (tkey(sh['elem']), sh['n'], str(sh['a']).lower() if isinstance(sh['a'], bool) else sh['a'])
    return '%s<%s>' % (name, ','.join(tkey(a) for a in args))


def is_expr_kind(k):
    return k.endswith(('Expr', 'Operator', 'Literal')) or k in TRANSPARENT


# ============================================================================================
#  function view
# ============================================================================================
class FnView:
    def __init__(self, tu, f):
        self.tu = tu
        self.f = f
        self.pidx = {p['id']: i for i, p in enumerate(f['params'])}
        self.locals = {}       # var decl id -> term  (inlined)
        self.localvars = {}    # var decl id -> name  (kept as state variables)
        self.callees = []      # (name, qualified name, node) of resolved calls (typed AST only)
        self.gtypes = {}       # name of a referenced global -> its declared type
        self.asserts = []      # predicates of assert() statements (visible because the front end parses with -UNDEBUG)
        self.outer = None      # FnView of the enclosing function when this is the call operator of a lambda
        self.lambdas = set()   # function ids of the lambdas whose bodies were taken into terms of this function
        self.byref = {}        # name of a local -> names of the callees it is handed to where the parameter may be a non-const reference
        self.decl = tu.node(f['id'])
        self._body = None
        self._mut = None
        self._mut_sub = {}
        self._rest = ()        # the statements that follow the current one in its compound statement (scope of a local declared here)

    # ---- which locals are written after their declaration
    def _mutated(self, sub=None):
        """roots (declaration ids, 'this') of the objects written in the body - or, with sub, in that subtree only"""
        if sub is None and self._mut is not None:
            return self._mut
        if sub is not None and sub.get('id') is not None and sub.get('id') in self._mut_sub:
            return self._mut_sub[sub.get('id')]
        tu = self.tu
        mut = set()
        if sub is None:
            self._byref_ids = {}
        body = tu.body(self.f) if sub is None else sub

        def root_var(n):
            n = self.strip(n)
            while n is not None and n.get('kind') in ('MemberExpr', 'CXXDependentScopeMemberExpr', 'ArraySubscriptExpr',
                                                      'CXXOperatorCallExpr'):
                ks = tu.kids(n)
                if n.get('kind') == 'CXXOperatorCallExpr':
                    if self._opname(n) != '[]' or len(ks) < 2:
                        return None
                    n = self.strip(ks[1])
                    continue
                if not ks:
                    return None
                n = self.strip(ks[0])
            if n is not None and n.get('kind') == 'DeclRefExpr':
                return n.get('referencedDecl', {}).get('id')
            if n is not None and n.get('kind') == 'CXXThisExpr':
                return 'this'
            return None

        if body is not None:
            for n in tu.walk(body):
                k = n.get('kind')
                ks = tu.kids(n)
                if k == 'CompoundAssignOperator' or (k == 'BinaryOperator' and n.get('opcode') == '='):
                    mut.add(root_var(ks[0]))
                elif k == 'UnaryOperator' and n.get('opcode') in ('++', '--', '&'):
                    mut.add(root_var(ks[0]))
                elif k == 'CXXOperatorCallExpr':
                    nm = self._opname(n)
                    if nm and (nm == '=' or (nm.endswith('=') and nm not in ('==', '!=', '<=', '>=')) or nm in ('++', '--')):
                        if len(ks) > 1:
                            mut.add(root_var(ks[1]))
                elif k in ('CXXMemberCallExpr', 'CallExpr') and ks:
                    c = self.strip(ks[0])
                    if c is not None and c.get('kind') in ('MemberExpr', 'CXXDependentScopeMemberExpr', 'UnresolvedMemberExpr'):
                        cks = tu.kids(c)
                        if cks:
                            mut.add(root_var(cks[0]))
                    # an lvalue handed to a function whose parameter may be a non-const reference (std::swap, ...)
                    cf = tu.callee_fn(n)
                    ptypes = [p['ct'] for p in cf['params']] if cf is not None else None
                    if ptypes is None:
                        fty = tu.sd(n).get('fty')
                        if fty and '(' in fty:
                            a0 = fty.index('(')
                            depth, b0 = 0, -1
                            for j in range(a0, len(fty)):
                                if fty[j] == '(':
                                    depth += 1
                                elif fty[j] == ')':
                                    depth -= 1
                                    if depth == 0:
                                        b0 = j
                                        break
                            ptypes = _split_top(fty[a0 + 1:b0]) if b0 > a0 else None
                    for i, a in enumerate(ks[1:]):
                        if ptypes is not None and i < len(ptypes):
                            pt = ptypes[i].strip()
                            if not pt.endswith('&') or pt.endswith('&&') or pt.startswith('const '):
                                continue
                        rv = root_var(a)
                        if rv is not None:
                            mut.add(('arg', rv))
                            cn = self.strip(ks[0])
                            cname = (cn.get('name') or cn.get('member') or cn.get('referencedDecl', {}).get('name')) if cn else None
                            if sub is None:
                                self._byref_ids.setdefault(rv, set()).add(cname or '?')
        mut.discard(None)
        # ('arg', id): only counts for locals that are not const-qualified
        constvars = set()
        whole = tu.body(self.f)
        if whole is not None:
            for n in tu.walk(whole):
                if n.get('kind') == 'VarDecl' and tclean_const((n.get('type') or {}).get('qualType')):
                    constvars.add(n.get('id'))
        for m in list(mut):
            if isinstance(m, tuple):
                mut.discard(m)
                if m[1] not in constvars:
                    mut.add(m[1])
        if sub is None:
            self._mut = mut
        elif sub.get('id') is not None:
            self._mut_sub[sub.get('id')] = mut
        return mut

    def strip(self, n):
        tu = self.tu
        while n is not None:
            k = n.get('kind')
            if k in TRANSPARENT:
                ks = tu.kids(n)
                if not ks:
                    return n
                n = ks[-1] if k == 'SubstNonTypeTemplateParmExpr' else ks[0]
                continue
            if k == 'UnaryOperator' and n.get('opcode') == '__extension__':
                n = tu.kids(n)[0]
                continue
            if k == 'ParenListExpr' and len(tu.kids(n)) == 1:
                n = tu.kids(n)[0]
                continue
            return n
        return n

    def _opname(self, n):
        """operator symbol of a CXXOperatorCallExpr ('+', '+=', '[]', '()', ...)"""
        tu = self.tu
        q = tu.sd(n).get('q')
        if q:
            nm = q.split('::')[-1]
        else:
            ks = tu.kids(n)
            c = self.strip(ks[0]) if ks else None
            nm = None
            if c is not None:
                nm = c.get('name') or c.get('member') or c.get('referencedDecl', {}).get('name')
        if nm and nm.startswith('operator'):
            return nm[len('operator'):].strip()
        return None

    # ---- expressions
    def term(self, n):
        tu = self.tu
        n = self.strip(n)
        if n is None:
            return ('?', 'null')
        k = n.get('kind')
        ks = tu.kids(n)
        T = self.term
        if k == 'DeclRefExpr':
            rd = n.get('referencedDecl', {})
            rk, rid, name = rd.get('kind'), rd.get('id'), rd.get('name', '?')
            if rk == 'ParmVarDecl':
                if rid in self.pidx:
                    return ('p', self.pidx[rid])
                o = self.outer
                if o is not None and rid in o.pidx and rid not in o._mutated():
                    return ('\x00op', o.pidx[rid])      # captured parameter of the enclosing function (never written there)
                return ('?', 'foreign parameter ' + name)
            if rk == 'VarDecl':
                if rid in self.locals:
                    return self.locals[rid]
                if rid in self.localvars:
                    return ('v', name)
                o = self.outer
                if o is not None and rid in o.locals:
                    # captured local of the enclosing function that is never written after its initialisation
                    return map_terms(o.locals[rid], lambda x: ('\x00op', x[1]) if (x[0] == 'p' and len(x) == 2 and isinstance(x[1], int)) else x)
                if o is not None and rid in o.localvars:
                    return ('?', 'captured mutable local ' + name)
                self.gtypes[name] = tclean((rd.get('type') or {}).get('qualType'))
                return ('g', name)
            if rk == 'NonTypeTemplateParmDecl':
                return ('tp', name)
            return ('g', name)
        if k == 'CXXThisExpr':
            return ('this',)
        if k == 'MemberExpr':
            base = T(ks[0]) if ks else ('this',)
            return ('m', base, n.get('name', '?'))
        if k == 'CXXDependentScopeMemberExpr':
            base = T(ks[0]) if ks else ('this',)
            return ('m', base, n.get('member', '?'))
        if k in ('IntegerLiteral', 'FloatingLiteral'):
            try:
                return ('lit', Fraction(str(n.get('value'))))
            except (ValueError, ZeroDivisionError):
                try:
                    return ('lit', Fraction(float(n.get('value'))))
                except ValueError:
                    return ('?', 'literal ' + str(n.get('value')))
        if k == 'CXXBoolLiteralExpr':
            return ('lit', bool(n.get('value')))
        if k in ('StringLiteral', 'CharacterLiteral'):
            return ('str', str(n.get('value')))
        if k == 'UnaryOperator':
            op = n.get('opcode')
            a = T(ks[0])
            if op == '*' and a == ('this',):
                return ('this',)
            if n.get('isPostfix'):
                op = 'post' + op
            return ('u', op, a)
        if k == 'BinaryOperator':
            op = n.get('opcode')
            if op == '=':
                return ('asg', '=', T(ks[0]), T(ks[1]))
            if op == ',':
                return ('?', 'comma operator')
            return ('b', op, T(ks[0]), T(ks[1]))
        if k == 'CompoundAssignOperator':
            return ('asg', n.get('opcode'), T(ks[0]), T(ks[1]))
        if k in ('ConditionalOperator',):
            return ('?:', T(ks[0]), T(ks[1]), T(ks[2]))
        if k == 'ArraySubscriptExpr':
            return ('idx', T(ks[0]), T(ks[1]))
        if k == 'CXXOperatorCallExpr':
            op = self._opname(n)
            args = [T(a) for a in ks[1:]]
            q = tu.sd(n).get('q')
            if q:
                self.callees.append(('operator' + (op or '?'), q, n))
            if op is None:
                return ('?', 'operator call')
            if op == '[]' and len(args) == 2:
                return ('idx', args[0], args[1])
            if op == '()' and args:
                return ('mcall', 'operator()', args[0], tuple(args[1:]))
            if op == '=' or (op.endswith('=') and op not in ('==', '!=', '<=', '>=')):
                if len(args) == 2:
                    return ('asg', op, args[0], args[1])
            if len(args) == 1:
                return ('u', op, args[0])
            if len(args) == 2:
                if op in ('++', '--'):
                    return ('u', 'post' + op, args[0])
                return ('b', op, args[0], args[1])
            return ('?', 'operator call arity')
        if k in ('CallExpr', 'CXXMemberCallExpr'):
            c = self.strip(ks[0]) if ks else None
            args = tuple(T(a) for a in ks[1:] if a.get('kind') != 'CXXDefaultArgExpr')
            if c is None:
                return ('?', 'call')
            ck = c.get('kind')
            q = tu.sd(n).get('q')
            if ck in ('MemberExpr', 'CXXDependentScopeMemberExpr', 'UnresolvedMemberExpr'):
                cks = tu.kids(c)
                obj = T(cks[0]) if cks else ('this',)
                name = c.get('name') or c.get('member') or (q.split('::')[-1] if q else '?')
                if q:
                    self.callees.append((name, q, n))
                if name.startswith('operator ') and not args:
                    if name.rstrip().endswith('*'):
                        return ('ctor', tkey(name[len('operator '):]), (obj,))     # pointer view of the object
                    return obj          # conversion function: value-preserving view of the object
                return ('mcall', name, obj, args)
            if ck == 'UnresolvedLookupExpr':
                return ('call', c.get('name', '?'), args)
            if ck == 'DeclRefExpr':
                rd = c.get('referencedDecl', {})
                name = rd.get('name', '?')
                if rd.get('kind') == 'ParmVarDecl' and rd.get('id') in self.pidx:
                    return ('pcall', ('p', self.pidx[rd['id']]), args)      # call of a callable parameter
                if q:
                    self.callees.append((name, q, n))
                return ('call', name, args)
            if ck == 'DependentScopeDeclRefExpr':
                return ('call', '<dependent-scope>', args)
            return ('?', 'call through ' + str(ck))
        if k in ('CXXUnresolvedConstructExpr', 'CXXTemporaryObjectExpr', 'CXXConstructExpr', 'InitListExpr',
                 'CXXScalarValueInitExpr', 'ImplicitValueInitExpr', 'ParenListExpr'):
            ct = tu.sd(n).get('ct') or (n.get('type') or {}).get('qualType')
            key = tkey(ct)
            args = tuple(T(a) for a in ks if a.get('kind') != 'CXXDefaultArgExpr')
            if k == 'CXXConstructExpr' and len(ks) == 1:
                at = tkey(tu.sd(self.strip(ks[0])).get('ct') or '')
                if at == key:
                    return args[0]       # copy / move construction
            if k == 'InitListExpr' and ct in (None, 'void', '<dependent type>'):
                key = None
            if k == 'ParenListExpr':
                key = None
            if key is not None and len(args) == 1 and args[0][0] == 'ctor' and args[0][1] is None:
                args = args[0][2]        # T{a, b, c}: braced list spliced into the construction
            return ('ctor', key, args)
        if k in CASTS:
            inner = self.strip(ks[-1]) if ks else None
            ct = tu.sd(n).get('ct') or (n.get('type') or {}).get('qualType')
            key = tkey(ct)
            if n.get('castKind') == 'ToVoid':
                return ('ctor', 'void', (T(inner),))
            t = T(inner)
            if t[0] == 'ctor' and t[1] == key:
                return t
            if inner is not None and inner.get('kind') in ('CXXConstructExpr',) and tkey(tu.sd(inner).get('ct') or '') == key:
                return t
            return ('ctor', key, (t,))
        if k == 'UnaryExprOrTypeTraitExpr':
            cv = tu.sd(n).get('cv')
            if cv is not None:
                try:
                    return ('lit', Fraction(str(cv)))
                except ValueError:
                    pass
            if ks:
                return ('traitof', n.get('name', '?'), T(ks[0]))
            return ('traitof', n.get('name', '?'), ('type', tkey((n.get('argType') or {}).get('qualType'))))
        if k == 'LambdaExpr':
            g = tu.functions.get(tu.sd(n).get('op'))
            if g is not None and tu.body(g) is not None:
                lv = FnView(tu, g)
                lv.outer = self
                lb = lv.body()
                if len(lb) == 1 and lb[0][0] == 'ret' and lb[0][1] is not None and not unknowns(lb[0][1]):
                    self.callees.extend(lv.callees)
                    self.lambdas.add(g['id'])
                    self.lambdas |= lv.lambdas
                    for nm_, ty_ in lv.gtypes.items():
                        self.gtypes.setdefault(nm_, ty_)
                    body = map_terms(lb[0][1], lambda x: ('lp', x[1]) if (x[0] == 'p' and len(x) == 2 and isinstance(x[1], int)) else x)
                    body = map_terms(body, lambda x: ('p', x[1]) if x[0] == '\x00op' else x)
                    return ('lambda', len(g['params']), body)
            return ('?', 'LambdaExpr')
        if k == 'CXXDefaultArgExpr':
            return ('defarg',)
        if k == 'CXXDefaultInitExpr':
            return ('?', 'default member initialiser')
        if k == 'PredefinedExpr':
            return ('str', n.get('name', ''))
        return ('?', k)

    # ---- statements
    def _reads_written_state(self, init):
        """the initialiser of a local reads an object (parameter, other local, *this) that the function writes somewhere: the local
        then holds the value of that moment and must stay a state variable instead of being replaced by its initialiser"""
        if init is None:
            return False
        # only writes inside the scope of the local, after its declaration, matter: the statements that follow the declaration
        # in its compound statement (a local of a loop body is initialised anew in every iteration)
        mut = set()
        for c in self._rest:
            mut |= self._mutated(c)
        if not mut:
            return False
        constp = {p['id'] for p in self.f['params'] if (p.get('ct') or '').strip().startswith('const ')}
        for x in self.tu.walk(init):
            k = x.get('kind')
            if k == 'DeclRefExpr':
                rd = x.get('referencedDecl', {})
                rid = rd.get('id')
                if rid in constp or tclean_const((rd.get('type') or {}).get('qualType')):
                    continue        # nothing is written through a const-qualified name
                if rid in mut:
                    return True
            elif k == 'CXXThisExpr' and 'this' in mut and not (self.f.get('fty') or '').rstrip().endswith(' const'):
                return True         # (in a const member function nothing is written through `this`)
        return False

    def is_assert(self, n):
        tu = self.tu
        n = self.strip(n)
        if n is None or n.get('kind') != 'ConditionalOperator':
            return False
        for x in tu.walk(n):
            if x.get('kind') in ('UnresolvedLookupExpr',) and x.get('name') == '__assert_fail':
                return True
            if x.get('kind') == 'DeclRefExpr' and x.get('referencedDecl', {}).get('name') == '__assert_fail':
                return True
        return False

    def stmts(self, n):
        tu = self.tu
        out = []
        if n is None:
            return out
        if n.get('kind') in TRANSPARENT:
            n = self.strip(n)
        k = n.get('kind')
        if k == 'CompoundStmt':
            kids = tu.kids(n)
            for j, c in enumerate(kids):
                self._rest = kids[j + 1:]
                out.extend(self.stmts(c))
            self._rest = ()
            return out
        if k == 'NullStmt':
            return out
        if k == 'DeclStmt':
            for d in tu.kids(n):
                dk = d.get('kind')
                if dk in ('TypeAliasDecl', 'TypedefDecl', 'UsingDecl', 'StaticAssertDecl', 'UsingDirectiveDecl'):
                    continue
                if dk == 'VarDecl':
                    init = [c for c in tu.kids(d) if is_expr_kind(c.get('kind', ''))]
                    t = self.term(init[-1]) if init else ('ctor', tkey((d.get('type') or {}).get('qualType')), ())
                    if t[0] == 'ctor' and t[1] is None:
                        t = ('ctor', tkey((d.get('type') or {}).get('qualType')), t[2])
                    elif init:
                        # `const T s = b;` converts: keep the conversion in the term when the declared type differs from
                        # the type of the initialiser (types as written; `auto` deduces, so no conversion)
                        vt = tkey((d.get('type') or {}).get('qualType'))
                        src = self.strip(init[-1])
                        it = tkey((src.get('type') or {}).get('qualType')) if src is not None else vt
                        if 'auto' not in vt.split() and vt != 'auto' and it not in ('<dependent type>', '') and it != vt \
                                and not (t[0] == 'ctor' and t[1] == vt):
                            t = ('ctor', vt, (t,))
                        elif vt.endswith('*') and it in ('<dependent type>', '') and not (t[0] == 'ctor' and t[1] == vt):
                            t = ('ctor', vt, (t,))      # a pointer initialised from a dependent expression: a conversion
                    if d['id'] not in self._mutated() and not self._reads_written_state(init[-1] if init else None):
                        self.locals[d['id']] = t
                    else:
                        self.localvars[d['id']] = d.get('name', '?')
                        if d['id'] in self._byref_ids:
                            self.byref[d.get('name', '?')] = set(self._byref_ids[d['id']])
                        out.append(('decl', d.get('name', '?'), t, tkey((d.get('type') or {}).get('qualType'))))
                    continue
                out.append(('?', 'declaration ' + str(dk)))
            return out
        if k == 'ReturnStmt':
            ks = tu.kids(n)
            out.append(('ret', self.term(ks[0]) if ks else None))
            return out
        if k == 'IfStmt':
            ks = tu.kids(n)
            if n.get('hasInit') or n.get('hasVar') or len(ks) < 2:
                return [('?', 'if with init/var')]
            c = self.term(ks[0])
            th = self.stmts(ks[1])
            el = self.stmts(ks[2]) if len(ks) > 2 else []
            out.append(('if', c, tuple(th), tuple(el)))
            return out
        if k == 'ForStmt':
            inner = n.get('inner', [])
            # clang: init, condvar, cond, inc, body (missing parts are empty dicts)
            if len(inner) != 5:
                return [('?', 'for statement')]
            self._rest = (n,)      # a variable of the init statement lives as long as the loop runs
            ini = self.stmts(inner[0]) if inner[0].get('kind') else []
            cond = self.term(inner[2]) if inner[2].get('kind') else None
            inc = self.term(inner[3]) if inner[3].get('kind') else None
            body = self.stmts(inner[4]) if inner[4].get('kind') else []
            out.append(('for', tuple(ini), cond, inc, tuple(body)))
            return out
        if is_expr_kind(k):
            if self.is_assert(n):
                c = self.strip(n)
                cks = tu.kids(c)
                if cks:
                    self.asserts.append(strip_casts(self.term(cks[0]), pred=lambda ty: ty == 'bool'))
                return out
            out.append(('expr', self.term(n)))
            return out
        return [('?', k)]

    def body(self):
        if self._body is None:
            self._mutated()
            self._body = self.stmts(self.tu.body(self.f))
        return self._body

    def inits(self):
        """[(field name | '<base>', term)] of a constructor's member initialisers (written ones)"""
        out = []
        d = self.decl
        if d is None:
            return None
        for c in d.get('inner', ()):
            if c.get('kind') != 'CXXCtorInitializer':
                continue
            ks = self.tu.kids(c)
            fld = (c.get('anyInit') or {}).get('name')
            if fld is None:
                fld = '<delegate>' if c.get('delegatingInit') is not None else '<base>'
                bt = (c.get('baseInit') or {}).get('qualType')
                if fld == '<base>' and bt and self.f.get('rec') and tparse(bt)[0].split('::')[-1] == self.f['rec'].split('::')[-1]:
                    fld = '<delegate>'     # template pattern: a "base" initialiser naming the class itself delegates
                if fld == '<delegate>':
                    self.delegate_node = ks[0] if ks else None
            if ks and ks[0].get('kind') == 'CXXDefaultInitExpr':
                out.append((fld, ('?', 'default member initialiser')))
                continue
            if fld == '<delegate>' and ks and ks[0].get('kind') == 'ParenListExpr':
                out.append((fld, ('ctor', None, tuple(self.term(a) for a in self.tu.kids(ks[0])))))
                continue
            out.append((fld, self.term(ks[0]) if ks else ('ctor', None, ())))
        return out

    def ptype(self, i):
        return self.f['params'][i]['ct']


def unknowns(t, acc=None):
    """all ('?', what) leaves of a term / statement tuple"""
    if acc is None:
        acc = []
    if isinstance(t, tuple):
        if len(t) == 2 and t[0] == '?' and isinstance(t[1], str):
            acc.append(t[1])
        else:
            for x in t:
                unknowns(x, acc)
    elif isinstance(t, list):
        for x in t:
            unknowns(x, acc)
    return acc


def show(t, names=None):
    """readable rendering of a term (names: parameter names)"""
    if not isinstance(t, tuple) or not t:
        return str(t)
    k = t[0]
    S = lambda x: show(x, names)
    if k == 'p':
        return names[t[1]] if names and t[1] < len(names) and names[t[1]] else 'arg%d' % t[1]
    if k == 'this':
        return 'this'
    if k == 'm':
        b = S(t[1])
        return t[2] if b == 'this' else '%s.%s' % (b, t[2])
    if k == 'u':
        return '%s%s' % (S(t[2]), t[1][4:]) if t[1].startswith('post') else '%s%s' % (t[1], S(t[2]))
    if k == 'b':
        return '(%s %s %s)' % (S(t[2]), t[1], S(t[3]))
    if k == 'asg':
        return '%s %s %s' % (S(t[2]), t[1], S(t[3]))
    if k == '?:':
        return '(%s ? %s : %s)' % (S(t[1]), S(t[2]), S(t[3]))
    if k == 'call':
        return '%s(%s)' % (t[1], ', '.join(S(a) for a in t[2]))
    if k == 'mcall':
        return '%s.%s(%s)' % (S(t[2]), t[1], ', '.join(S(a) for a in t[3]))
    if k == 'ctor':
        return '%s(%s)' % (t[1] or '', ', '.join(S(a) for a in t[2]))
    if k == 'lit':
        v = t[1]
        if isinstance(v, bool):
            return 'true' if v else 'false'
        return str(v.numerator) if v.denominator == 1 else str(float(v))
    if k in ('g', 'tp', 'v'):
        return t[1]
    if k == 'str':
        return t[1]
    if k == 'idx':
        return '%s[%s]' % (S(t[1]), S(t[2]))
    if k == '?':
        return '<?%s>' % t[1]
    if k == 'defarg':
        return '<default>'
    return str(t)


def subst(t, fn):
    """bottom-up rewriting: fn(term) -> replacement or None"""
    if not isinstance(t, tuple) or not t:
        return t
    r = fn(t) if isinstance(t[0], str) else None
    if r is not None:
        return r
    return tuple(subst(x, fn) if isinstance(x, tuple) else x for x in t)


def strip_casts(t, pred=None):
    """remove single-argument scalar conversions ('ctor', type, (x,)) for which pred(type) holds (default: all non-vec, non-range)"""
    def f(x):
        if x[0] == 'ctor' and len(x[2]) == 1 and x[1] is not None:
            ty = x[1]
            ok = pred(ty) if pred else not (ty.startswith('vec_t<') or ty.startswith('range_t<'))
            if ok:
                return strip_casts(x[2][0], pred)
        return None
    return subst(t, f)


# ============================================================================================
#  polynomial normal form
# ============================================================================================
class Poly:
    __slots__ = ('t',)

    def __init__(self, t=None):
        self.t = {k: v for k, v in (t or {}).items() if v != 0}

    @staticmethod
    def const(c):
        return Poly({(): Fraction(c)})

    @staticmethod
    def atom(a):
        return Poly({(a,): Fraction(1)})

    def __add__(self, o):
        r = dict(self.t)
        for k, v in o.t.items():
            r[k] = r.get(k, 0) + v
        return Poly(r)

    def __neg__(self):
        return Poly({k: -v for k, v in self.t.items()})

    def __sub__(self, o):
        return self + (-o)

    def __mul__(self, o):
        r = {}
        for k1, v1 in self.t.items():
            for k2, v2 in o.t.items():
                k = tuple(sorted(k1 + k2))
                r[k] = r.get(k, 0) + v1 * v2
        return Poly(r)

    def scale(self, c):
        return Poly({k: v * c for k, v in self.t.items()})

    def is_const(self):
        return all(k == () for k in self.t)

    def constval(self):
        return self.t.get((), Fraction(0))

    def __eq__(self, o):
        return isinstance(o, Poly) and self.t == o.t

    def __hash__(self):
        return hash(frozenset(self.t.items()))

    def atoms(self):
        return {a for k in self.t for a in k}

    def __repr__(self):
        if not self.t:
            return '0'
        parts = []
        for k in sorted(self.t, key=lambda m: (len(m), m)):
            v = self.t[k]
            c = str(v.numerator) if v.denominator == 1 else '%s/%s' % (v.numerator, v.denominator)
            mon = '*'.join(k)
            if not k:
                parts.append(c)
            elif v == 1:
                parts.append(mon)
            elif v == -1:
                parts.append('-' + mon)
            else:
                parts.append('%s*%s' % (c, mon))
        return ' + '.join(parts).replace('+ -', '- ')


def poly(t, atom=None, names=None):
    """Poly of a scalar term; non-arithmetic subterms become atoms (atom(term) -> Poly|None may interpret them)"""
    if atom is not None:
        r = atom(t)
        if r is not None:
            return r
    k = t[0]
    P = lambda x: poly(x, atom, names)
    if k == 'lit' and not isinstance(t[1], bool):
        return Poly.const(t[1])
    if k == 'b' and t[1] in ('+', '-', '*'):
        a, b = P(t[2]), P(t[3])
        return a + b if t[1] == '+' else a - b if t[1] == '-' else a * b
    if k == 'b' and t[1] == '/':
        b = P(t[3])
        if b.is_const() and b.constval() != 0:
            return P(t[2]).scale(1 / b.constval())
    if k == 'u' and t[1] == '-':
        return -P(t[2])
    if k == 'u' and t[1] == '+':
        return P(t[2])
    return Poly.atom(show(t, names))


# ============================================================================================
#  canonical Boolean form over order atoms
# ============================================================================================
CMP = ('<', '>', '<=', '>=', '==', '!=')


class Formula:
    """collects the variables of one or more formulas; then truth tables over the same variable order"""

    def __init__(self, opaque=None, names=None):
        self.pairs = []       # unordered pairs (ka, kb) of compared operand keys
        self.bools = []       # opaque Boolean atoms
        self.opaque = opaque  # fn(term) -> key (str) for an opaque Boolean atom, or None
        self.names = names
        self.bad = []

    def key(self, t):
        return show(t, self.names)

    def scan(self, t):
        k = t[0]
        if k == 'lit' and isinstance(t[1], bool):
            return
        if k == 'b' and t[1] in ('&&', '||', '&', '|'):
            self.scan(t[2]); self.scan(t[3]); return
        if k == 'u' and t[1] == '!':
            self.scan(t[2]); return
        if k == '?:':
            self.scan(t[1]); self.scan(t[2]); self.scan(t[3]); return
        if k == 'b' and t[1] in CMP:
            a, b = self.key(t[2]), self.key(t[3])
            if unknowns(t):
                self.bad.append(show(t, self.names))
                return
            p = (a, b) if a <= b else (b, a)
            if p not in self.pairs:
                self.pairs.append(p)
            return
        if self.opaque is not None:
            o = self.opaque(t)
            if o is not None:
                if o not in self.bools:
                    self.bools.append(o)
                return
        self.bad.append(show(t, self.names))

    def _eval(self, t, rel, bl):
        k = t[0]
        if k == 'lit':
            return bool(t[1])
        if k == 'b' and t[1] in ('&&', '&'):
            return self._eval(t[2], rel, bl) and self._eval(t[3], rel, bl)
        if k == 'b' and t[1] in ('||', '|'):
            return self._eval(t[2], rel, bl) or self._eval(t[3], rel, bl)
        if k == 'u':
            return not self._eval(t[2], rel, bl)
        if k == '?:':
            return self._eval(t[2], rel, bl) if self._eval(t[1], rel, bl) else self._eval(t[3], rel, bl)
        if k == 'b':
            a, b = self.key(t[2]), self.key(t[3])
            if a == b:
                r = 0
            elif a <= b:
                r = rel[(a, b)]
            else:
                r = -rel[(b, a)]
            return {'<': r < 0, '>': r > 0, '<=': r <= 0, '>=': r >= 0, '==': r == 0, '!=': r != 0}[t[1]]
        return bl[self.opaque(t)]

    def _consistent(self, rel):
        """is the assignment of {<,=,>} to the pairs realisable in a total order?"""
        par = {}

        def find(x):
            while par.setdefault(x, x) != x:
                par[x] = par[par[x]]
                x = par[x]
            return x
        for (a, b), r in rel.items():
            if a == b:
                if r != 0:
                    return False
                continue
            if r == 0:
                par[find(a)] = find(b)
        edges = {}
        for (a, b), r in rel.items():
            if r == 0 or a == b:
                continue
            x, y = find(a), find(b)
            if x == y:
                return False
            if r > 0:
                x, y = y, x
            edges.setdefault(x, set()).add(y)   # x < y
        # cycle detection
        state = {}

        def dfs(u):
            state[u] = 1
            for v in edges.get(u, ()):
                if state.get(v) == 1:
                    return False
                if v not in state and not dfs(v):
                    return False
            state[u] = 2
            return True
        for u in list(edges):
            if u not in state and not dfs(u):
                return False
        return True

    def assignments(self):
        pairs = [p for p in self.pairs if p[0] != p[1]]
        for rs in itertools.product((-1, 0, 1), repeat=len(pairs)):
            rel = dict(zip(pairs, rs))
            if not self._consistent(rel):
                continue
            for bs in itertools.product((False, True), repeat=len(self.bools)):
                yield rel, dict(zip(self.bools, bs))

    def compare(self, f, g):
        """None if f and g agree on every realisable assignment, else a description of one that separates them"""
        for rel, bl in self.assignments():
            vf, vg = self._eval(f, rel, bl), self._eval(g, rel, bl)
            if vf != vg:
                desc = ['%s %s %s' % (a, {-1: '<', 0: '==', 1: '>'}[r], b) for (a, b), r in rel.items()]
                desc += ['%s is %s' % (k, str(v).lower()) for k, v in bl.items()]
                return '%s: the code yields %s, the definition %s' % (', '.join(desc), str(vf).lower(), str(vg).lower())
        return None


def bool_of_stmts(stmts):
    """Boolean term of a body made of `if (c) return X;` chains ending in a return; None if not of that shape"""
    if not stmts:
        return None
    s = stmts[0]
    if s[0] == 'ret':
        return s[1]
    if s[0] == 'if':
        th = bool_of_stmts(list(s[2]))
        if th is None:
            return None
        if s[3]:
            el = bool_of_stmts(list(s[3]))
        else:
            el = bool_of_stmts(stmts[1:])
        if el is None:
            return None
        return ('?:', s[1], th, el)
    return None


def flatten(t, op):
    """leaves of a tree of the associative binary operator / two-argument call `op`"""
    if t[0] == 'b' and t[1] == op:
        return flatten(t[2], op) + flatten(t[3], op)
    if t[0] == 'call' and t[1] == op and len(t[2]) == 2:
        return flatten(t[2][0], op) + flatten(t[2][1], op)
    return [t]


def commute(t, ops=('+', '*', '==', '!=', '&&', '||'), calls=()):
    """canonical operand order for commutative operators (and the listed symmetric two-argument calls);
    `a > b` is rewritten as `b < a`, `a >= b` as `b <= a`"""
    def f(x):
        if x[0] == 'b':
            a, b = commute(x[2], ops, calls), commute(x[3], ops, calls)
            op = x[1]
            if op == '>':
                op, a, b = '<', b, a
            elif op == '>=':
                op, a, b = '<=', b, a
            if op in ops and repr(b) < repr(a):
                a, b = b, a
            return ('b', op, a, b)
        if x[0] == 'call' and x[1] in calls and len(x[2]) == 2:
            a, b = commute(x[2][0], ops, calls), commute(x[2][1], ops, calls)
            if repr(b) < repr(a):
                a, b = b, a
            return ('call', x[1], (a, b))
        return None
    return subst(t, f)


# ============================================================================================
#  helper inlining, constant folding, constant-trip loop unrolling
# ============================================================================================
def map_terms(t, fn):
    """post-order rewriting of every sub-term (also inside statement tuples): fn(term) -> term"""
    if not isinstance(t, tuple) or not t:
        return t
    t2 = tuple(map_terms(x, fn) if isinstance(x, tuple) else x for x in t)
    if isinstance(t2[0], str):
        return fn(t2)
    return t2


def subst_params(t, args, this=None):
    """replace ('p', i) by args[i] (simultaneously) and ('this',) by `this` in a term / statement tuple"""
    def f(x):
        if x[0] == 'p' and len(x) == 2 and isinstance(x[1], int) and x[1] < len(args):
            return ('\x00arg', x[1])
        if x == ('this',) and this is not None:
            return ('\x00this',)
        return x
    marked = map_terms(t, f)

    def g(x):
        if x[0] == '\x00arg':
            return args[x[1]]
        if x[0] == '\x00this':
            return this
        return x
    return map_terms(marked, g)


def fold_consts(t):
    """integer constant folding: arithmetic / bit / comparison operators on literals, `c ? a : b` with literal c"""
    def f(x):
        if x[0] == 'b' and x[2][0] == 'lit' and x[3][0] == 'lit' and not isinstance(x[2][1], bool) and not isinstance(x[3][1], bool):
            a, b = x[2][1], x[3][1]
            op = x[1]
            try:
                if op == '+':
                    return ('lit', a + b)
                if op == '-':
                    return ('lit', a - b)
                if op == '*':
                    return ('lit', a * b)
                if op in ('&', '|', '^', '<<', '>>') and a.denominator == 1 and b.denominator == 1:
                    ia, ib = int(a), int(b)
                    return ('lit', Fraction({'&': ia & ib, '|': ia | ib, '^': ia ^ ib, '<<': ia << ib, '>>': ia >> ib}[op]))
                if op in ('<', '>', '<=', '>=', '==', '!='):
                    return ('lit', {'<': a < b, '>': a > b, '<=': a <= b, '>=': a >= b, '==': a == b, '!=': a != b}[op])
            except (ValueError, OverflowError):
                return x
        if x[0] == '?:' and x[1][0] == 'lit':
            c = x[1][1]
            return x[2] if (c if isinstance(c, bool) else c != 0) else x[3]
        return x
    return map_terms(t, f)


def _assigns(t, var):
    hit = []

    def f(x):
        if (x[0] == 'asg' and x[2] == var) or (x[0] == 'u' and x[1] in ('++', '--', 'post++', 'post--', '&') and x[2] == var):
            hit.append(x)
        return x
    map_terms(t, f)
    return bool(hit)


def unroll(stmts, limit=64):
    """replace every `for (v = c0; v < c1; ++v) body` whose bounds fold to constants and whose body never writes v by the
    sequence of body instances (v replaced by its value, constants folded).  Other statements are kept."""
    out = []
    for st in stmts:
        if st[0] == 'if':
            if st[1][0] == 'lit':
                c = st[1][1]
                out.extend(unroll(list(st[2] if (c if isinstance(c, bool) else c != 0) else st[3]), limit))
                continue
            out.append(('if', st[1], tuple(unroll(list(st[2]), limit)), tuple(unroll(list(st[3]), limit))))
            continue
        if st[0] != 'for':
            out.append(st)
            continue
        ini, cond, inc, body = st[1], st[2], st[3], st[4]
        ok = len(ini) == 1 and ini[0][0] == 'decl' and cond is not None and inc is not None
        if ok:
            var = ('v', ini[0][1])
            start = fold_consts(strip_casts(ini[0][2]))
            c = fold_consts(strip_casts(cond))
            if c[0] == 'b' and c[1] in ('<', '<=') and c[2][0] == 'b' and c[2][1] == '+' and c[3][0] == 'lit':
                # `v + k < bound`  ->  `v < bound - k`
                l_, r_ = c[2][2], c[2][3]
                if l_ == var and r_[0] == 'lit':
                    c = ('b', c[1], var, ('lit', c[3][1] - r_[1]))
                elif r_ == var and l_[0] == 'lit':
                    c = ('b', c[1], var, ('lit', c[3][1] - l_[1]))
            ok = (start[0] == 'lit' and c[0] == 'b' and c[1] in ('<', '<=', '!=') and c[2] == var and c[3][0] == 'lit'
                  and inc in (('u', '++', var), ('u', 'post++', var), ('asg', '+=', var, ('lit', Fraction(1))))
                  and not _assigns(body, var))
        if not ok:
            out.append(st)
            continue
        lo, hi = start[1], c[3][1]
        if c[1] == '<=':
            hi = hi + 1
        if lo.denominator != 1 or hi.denominator != 1 or hi - lo > limit:
            out.append(st)
            continue
        for k in range(int(lo), int(hi)):
            inst = map_terms(tuple(body), lambda x, k=k: ('lit', Fraction(k)) if x == var else x)
            out.extend(unroll([fold_consts(s) for s in inst], limit))
    return out


def calls_in(t):
    """names of all ('call', name, ..) / ('mcall', name, ..) in a term / statement tuple"""
    names = set()

    def f(x):
        if x[0] in ('call', 'mcall') and isinstance(x[1], str):
            names.add(x[1])
        return x
    map_terms(t, f)
    return names


class Inliner:
    """replaces calls of helper functions - functions of the analysed headers that the classifier does not know - by their
    bodies with the parameters mapped, so that the caller is decided with the helper in place"""

    def __init__(self, tu, f, v, is_helper):
        self.tu, self.f, self.v, self.pred = tu, f, v, is_helper
        self.used = set()
        self.used_names = set()

    def _is_helper(self, g):
        return g['id'] != self.f['id'] and bool(self.pred(g))

    def lookup(self, name, nargs, member, args=None):
        tu = self.tu
        for nm, q, node in self.v.callees:
            if nm == name:
                g = tu.callee_fn(node)
                if g is not None and len(g['params']) == nargs and self._is_helper(g):
                    return g
        cands = []
        for g in tu.functions.values():
            if not g['dep'] or len(g['params']) != nargs or bool(g.get('rec')) != member:
                continue
            if member and g.get('rec') != self.f.get('rec'):
                continue
            d = tu.node(g['id']) or {}
            if (d.get('name') or g['q'].split('::')[-1]) == name and self._is_helper(g):
                cands.append(g)
        if len(cands) > 1 and args is not None:
            # overloads of the helper by vector shape: keep those whose vec_t parameters match the shapes of the arguments
            def shape_of_arg(a):
                if a[0] == 'p' and a[1] < len(self.f['params']):
                    return vecshape(self.f['params'][a[1]]['ct'])
                return None

            def fits(g):
                for prm, a in zip(g['params'], args):
                    ps, as_ = vecshape(prm['ct']), shape_of_arg(a)
                    if ps is None or as_ is None:
                        continue
                    if isinstance(ps['n'], int) and isinstance(as_['n'], int) and ps['n'] != as_['n']:
                        return False
                    if isinstance(ps['a'], bool) and isinstance(as_['a'], bool) and ps['a'] != as_['a']:
                        return False
                    if isinstance(ps['n'], int) != isinstance(as_['n'], int):
                        return False
                return True
            cands = [g for g in cands if fits(g)]
        return cands[0] if len(cands) == 1 else None

    def expr(self, t, depth=0):
        if depth > 3:
            return t

        def f(x):
            if x[0] == 'call' and isinstance(x[1], str):
                g = self.lookup(x[1], len(x[2]), False, x[2])
                if g is not None:
                    hv = FnView(self.tu, g)
                    body = bool_of_stmts(list(hv.body()))
                    if body is not None and not unknowns(body):
                        self.used.add(g['id'])
                        self.used_names.add(x[1])
                        self.v.callees.extend(hv.callees)
                        self.v.lambdas |= hv.lambdas
                        return self.expr(beta_reduce(subst_params(body, x[2])), depth + 1)
            return x
        return map_terms(t, f)

    def stmts(self, stmts, depth=0):
        out = []
        for st in stmts:
            if st[0] == 'expr' and st[1][0] == 'mcall' and st[1][2] == ('this',) and depth < 3:
                g = self.lookup(st[1][1], len(st[1][3]), True)
                if g is not None:
                    hv = FnView(self.tu, g)
                    hb = [x for x in hv.body() if not (x[0] == 'ret' and x[1] is None)]
                    if hb and all(x[0] == 'expr' for x in hb) and not unknowns(hb):
                        self.used.add(g['id'])
                        self.used_names.add(st[1][1])
                        self.v.callees.extend(hv.callees)
                        self.v.lambdas |= hv.lambdas
                        out.extend(self.stmts([subst_params(x, st[1][3], this=('this',)) for x in hb], depth + 1))
                        continue
            if st[0] in ('ret', 'expr') and st[1] is not None and st[1][0] == 'call' and isinstance(st[1][1], str) and depth < 3:
                g = self.lookup(st[1][1], len(st[1][2]), False)
                if g is not None:
                    hv = FnView(self.tu, g)
                    hb = list(hv.body())
                    single = bool_of_stmts(hb)

                    def early(xs, top=True):
                        for i, x in enumerate(xs):
                            if x[0] == 'ret' and not (top and i == len(xs) - 1):
                                return True
                            if x[0] == 'if' and (early(x[2], False) or early(x[3], False)):
                                return True
                            if x[0] == 'for' and early(x[4], False):
                                return True
                        return False
                    if single is None and hb and hb[-1][0] == 'ret' and not early(hb) and not unknowns(hb):
                        self.used.add(g['id'])
                        self.used_names.add(st[1][1])
                        self.v.callees.extend(hv.callees)
                        self.v.lambdas |= hv.lambdas
                        body = [subst_params(x, st[1][2]) for x in hb]
                        if st[0] == 'expr':
                            body = body[:-1]
                        out.extend(self.stmts(body, depth + 1))
                        continue
                    if st[0] == 'expr' and hb and not any(x[0] == 'ret' and x[1] is not None for x in hb) and not early(hb) \
                            and not unknowns(hb) and ret_is_void(g) and all(x[0] in ('decl', 'expr', 'ret') for x in hb):
                        # a void helper called for its effect on its reference parameters: the statements of its body with the
                        # parameters bound to the argument expressions (its locals renamed where the caller has the name too)
                        self.used.add(g['id'])
                        self.used_names.add(st[1][1])
                        self.v.callees.extend(hv.callees)
                        self.v.lambdas |= hv.lambdas
                        taken = {x[1] for x in list(stmts) + out if x[0] == 'decl'}
                        body = [x for x in hb if x[0] != 'ret']
                        for x in list(body):
                            if x[0] == 'decl' and x[1] in taken:
                                nn = x[1]
                                while nn in taken:
                                    nn += "'"
                                taken.add(nn)
                                body = [map_terms(y, lambda z, a=x[1], b=nn: ('v', b) if z == ('v', a) else z) for y in body]
                                body = [((y[0], nn) + tuple(y[2:])) if (y[0] == 'decl' and y[1] == x[1]) else y for y in body]
                        for nm_, cs_ in hv.byref.items():
                            self.v.byref.setdefault(nm_, set()).update(cs_)
                        out.extend(self.stmts([subst_params(x, st[1][2]) for x in body], depth + 1))
                        continue
            if st[0] == 'expr' and st[1][0] == 'mcall' and st[1][1] == 'operator()' and depth < 4:
                # a function object applied as a statement: f(a[i], b[i]) with f an instance of a helper struct of the analysed
                # headers; the resolved operator() (typed AST) is spliced in with its parameters bound
                gs = {}
                for nm, q, node in self.v.callees:
                    if nm == 'operator()':
                        g = self.tu.callee_fn(node)
                        if g is not None and len(g['params']) == len(st[1][3]) and self._is_helper(g):
                            gs[g['id']] = g
                if len(gs) == 1:
                    g = list(gs.values())[0]
                    hv = FnView(self.tu, g)
                    hb = [x for x in hv.body() if not (x[0] == 'ret' and x[1] is None)]
                    if hb and all(x[0] == 'expr' for x in hb) and not unknowns(hb):
                        self.used.add(g['id'])
                        self.used_names.add('operator()')
                        out.extend(self.stmts([subst_params(x, st[1][3]) for x in hb], depth + 1))
                        continue
            if st[0] == 'for':
                out.append(('for', st[1], st[2], st[3], tuple(self.stmts(list(st[4]), depth))))
                continue
            if st[0] == 'if':
                out.append(('if', self.expr(st[1]), tuple(self.stmts(list(st[2]), depth)), tuple(self.stmts(list(st[3]), depth))))
            elif st[0] in ('ret', 'expr') and st[1] is not None:
                out.append((st[0], self.expr(st[1])))
            else:
                out.append(st)
        return out


def ret_is_void(g):
    fty = (g.get('fty') or '').strip()
    return fty.startswith('void (') or fty.startswith('void(')


def straightline(stmts, fields_of=None, byref=None):
    """the value returned by a straight-line body - declarations of state variables, assignments (also compound ones) to a local or
    to one field of a local, one final return - as one term over the parameters, by forward substitution; None if the body has any
    other statement, or if a local is written in a way that is not followed (nested assignment, ++/--, handed to a call that may
    take it by non-const reference: byref = {local: {callee names}}).
    fields_of(typekey) -> field names in constructor-argument order, for aggregates whose all-fields constructor stores its
    arguments (range_t(lower, upper)): `r.lower = x` on such a local then yields T(x, <old upper>)."""
    env, fld, typ = {}, {}, {}
    byref = byref or {}

    def whole(name):
        mine = {f: t for (n, f), t in fld.items() if n == name}
        if not mine:
            return env[name]
        names = fields_of(typ.get(name)) if fields_of is not None else None
        if not names or not set(mine) <= set(names):
            return None
        return ('ctor', typ[name], tuple(mine[f] if f in mine else project(env[name], f, typ[name]) for f in names))

    def project(val, f, ty):
        if val[0] == 'ctor' and fields_of is not None:
            names = fields_of(val[1])
            if names and len(val[2]) == len(names) and f in names:
                return val[2][names.index(f)]
        return ('m', val, f)

    class GiveUp(Exception):
        pass

    def rd(t):
        if not isinstance(t, tuple) or not t:
            return t
        if t[0] == 'v' and len(t) == 2 and t[1] in env:
            w = whole(t[1])
            if w is None:
                raise GiveUp()
            return w
        if t[0] == 'm' and len(t) == 3 and isinstance(t[1], tuple) and t[1][:1] == ('v',) and len(t[1]) == 2 and t[1][1] in env:
            n = t[1][1]
            if (n, t[2]) in fld:
                return fld[(n, t[2])]
            return project(env[n], t[2], typ.get(n))
        if t[0] == 'asg' or (t[0] == 'u' and t[1] in ('++', '--', 'post++', 'post--', '&')):
            tgt = t[2]
            while isinstance(tgt, tuple) and tgt and tgt[0] in ('m', 'idx'):
                tgt = tgt[1]
            if isinstance(tgt, tuple) and tgt[:1] == ('v',) and len(tgt) == 2 and tgt[1] in env:
                raise GiveUp()
        if t[0] in ('call', 'mcall', 'pcall') and isinstance(t[1], str):
            for a in (t[2] if t[0] == 'call' else ((t[2],) + tuple(t[3]))):
                r = a
                while isinstance(r, tuple) and r and r[0] in ('m', 'idx'):
                    r = r[1]
                if isinstance(r, tuple) and r[:1] == ('v',) and len(r) == 2 and r[1] in env and (
                        t[1] in byref.get(r[1], ()) or '?' in byref.get(r[1], ())):
                    raise GiveUp()
        if t[0] == 'mcall' and isinstance(t[2], tuple) and t[2][:1] == ('v',) and len(t[2]) == 2 and t[2][1] in env and t[1] in byref.get(t[2][1], ()):
            raise GiveUp()
        return tuple(rd(x) if isinstance(x, tuple) else x for x in t)

    try:
        for i, st in enumerate(stmts):
            if st[0] == 'decl':
                if st[1] in env or st[2] is None:
                    return None
                val = rd(st[2])
                env[st[1]] = val
                typ[st[1]] = st[3] if len(st) > 3 else None
                continue
            if st[0] == 'expr' and st[1][0] == 'asg':
                op, tgt, rhs = st[1][1], st[1][2], st[1][3]
                if op != '=' and not (op.endswith('=') and op[:-1] in ('+', '-', '*', '/', '%', '&', '|', '^', '<<', '>>')):
                    return None
                val = rd(rhs)
                if tgt[0] == 'v' and len(tgt) == 2 and tgt[1] in env:
                    if op != '=':
                        cur = rd(tgt)
                        val = ('b', op[:-1], cur, val)
                    env[tgt[1]] = val
                    for k in [k for k in fld if k[0] == tgt[1]]:
                        del fld[k]
                    continue
                if tgt[0] == 'm' and len(tgt) == 3 and tgt[1][:1] == ('v',) and len(tgt[1]) == 2 and tgt[1][1] in env and fields_of is not None \
                        and tgt[2] in (fields_of(typ.get(tgt[1][1])) or ()):
                    if op != '=':
                        val = ('b', op[:-1], rd(tgt), val)
                    fld[(tgt[1][1], tgt[2])] = val
                    continue
                return None
            if st[0] == 'ret' and st[1] is not None and i == len(stmts) - 1:
                return rd(st[1])
            return None
    except GiveUp:
        return None
    return None


def ctor_fields(tu, f, v, pick_target, depth=0):
    """({field: term over f's parameters}, problem) of the member initialisers of constructor f, following a delegating
    initialiser into the target constructor (pick_target(f, v, args) -> function entry | None) with the arguments bound"""
    ini = v.inits()
    if ini is None:
        return None, 'constructor declaration not found'
    got = {}
    for fld, t in ini:
        if fld == '<base>':
            continue
        if fld == '<delegate>':
            if depth > 3 or t[0] != 'ctor':
                return None, 'delegating initialiser not understood: %s' % show(t)
            args = t[2]
            g = pick_target(f, v, args)
            if g is None:
                return None, 'target of the delegating initialiser `%s` cannot be identified' % show(t)
            gv = FnView(tu, g)
            sub, why = ctor_fields(tu, g, gv, pick_target, depth + 1)
            if sub is None:
                return None, why
            if [st for st in gv.body() if st[0] != 'ret']:
                return None, 'the constructor delegated to has a body'
            v.gtypes.update(gv.gtypes)
            for k, x in sub.items():
                got[k] = subst_params(x, args)
            continue
        if fld in got:
            return None, 'field %s initialised twice' % fld
        got[fld] = t
    return got, None


def beta_reduce(t):
    """apply lambdas that ended up in call position after a helper was inlined: f(args) with f = [](p...) { return body; }"""
    def f(x):
        lam = args = None
        if x[0] == 'pcall' and x[1][0] == 'lambda':
            lam, args = x[1], x[2]
        elif x[0] == 'mcall' and x[1] == 'operator()' and x[2][0] == 'lambda':
            lam, args = x[2], x[3]
        if lam is not None and len(args) == lam[1]:
            return map_terms(lam[2], lambda y: args[y[1]] if (y[0] == 'lp' and y[1] < len(args)) else y)
        return x
    return map_terms(t, f)


def select_to_minmax(t):
    """`a < b ? b : a` is std::max(a, b), `b < a ? b : a` is std::min(a, b) (exactly their definitions); `>`/`>=`/`<=` forms
    that select the same value for every ordered pair are rewritten too"""
    def f(x):
        if x[0] == '?:' and x[1][0] == 'b' and x[1][1] in ('<', '>', '<=', '>='):
            op, l, r = x[1][1], x[1][2], x[1][3]
            if op in ('>', '>='):
                op, l, r = ('<' if op == '>' else '<='), r, l
            # now: (l < r) or (l <= r)
            if {x[2], x[3]} == {l, r} and x[2] != x[3]:
                return ('call', 'max' if x[2] == r else 'min', (l, r))
        return x
    return map_terms(t, f)
